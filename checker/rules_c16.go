package main

import (
	"fmt"
	"go/ast"
	"go/constant"
	"go/token"
	"go/types"
	"sort"
	"strings"

	"golang.org/x/tools/go/packages"
)

// ---------------------------------------------------------------------------
// R16.1 AddMap: constants and static functions of the wrapped scope win, everything else is an attribute

func ruleR161(c *Ctx) {
	root := c.Pkg("")
	if root == nil {
		c.Undecided("package parser2", token.NoPos, "not found")
		return
	}
	info := root.TypesInfo
	fd := c.FuncDecl(root, "Identifiers", "AddMap")
	key := "parser2.Identifiers.AddMap"
	if fd == nil || len(fd.Type.Params.List) != 1 || len(fd.Type.Params.List[0].Names) != 1 {
		c.Undecided(key, token.NoPos, "not found")
		return
	}
	thisParam := info.Defs[fd.Type.Params.List[0].Names[0]]
	var lit *ast.FuncLit
	inspectNoLit(fd.Body, func(x ast.Node) bool {
		if r, ok := x.(*ast.ReturnStmt); ok && len(r.Results) == 1 {
			lit, _ = ast.Unparen(r.Results[0]).(*ast.FuncLit)
		}
		return true
	})
	if lit == nil {
		c.Undecided(key, fd.Pos(), "AddMap does not return a function literal")
		return
	}
	g := c.CFG(lit)
	nWrapped, nAttr := 0, 0
	var problems []string
	inspectNoLit(lit.Body, func(x ast.Node) bool {
		r, ok := x.(*ast.ReturnStmt)
		if !ok || len(r.Results) != 2 {
			return true
		}
		switch t := ast.Unparen(r.Results[0]).(type) {
		case *ast.Ident:
			// an identifier of the wrapped scope is handed out: only if it is a constant / static function
			nWrapped++
			constGuard := false
			for _, gd := range g.Guards(r) {
				if sel, ok := ast.Unparen(gd.Cond).(*ast.SelectorExpr); ok && gd.Val && sel.Sel.Name == "IsConst" {
					if id, ok := ast.Unparen(sel.X).(*ast.Ident); ok && info.ObjectOf(id) == info.ObjectOf(t) {
						constGuard = true
					}
				}
			}
			if !constGuard {
				problems = append(problems, "an identifier of the wrapped scope that is no constant/static function is resolved by the wrapped scope instead of becoming an attribute of the map")
			}
			// ... and under nothing else: found in the wrapped scope and constant must suffice
			for _, gd := range g.Guards(r) {
				cond := ast.Unparen(gd.Cond)
				if sel, ok := cond.(*ast.SelectorExpr); ok && sel.Sel.Name == "IsConst" {
					continue
				}
				if id, ok := cond.(*ast.Ident); ok && gd.Val {
					// the ok of the lookup
					if as, i := definingAssign(info, lit, info.ObjectOf(id)); as != nil && i == 1 {
						continue
					}
				}
				if be, ok := cond.(*ast.BinaryExpr); ok && (be.Op == token.EQL || be.Op == token.NEQ) {
					if y, ok := ast.Unparen(be.Y).(*ast.Ident); ok && y.Name == "nil" {
						continue // the test for an empty wrapped scope
					}
				}
				problems = append(problems, "a constant/static function of the wrapped scope wins only under the additional condition "+nodeStr(c.Fset, gd.Cond)+": otherwise an attribute of the same name shadows it")
			}
		case *ast.CompositeLit:
			nAttr++
			okThis := false
			for _, el := range t.Elts {
				if kv, ok := el.(*ast.KeyValueExpr); ok {
					if k, ok := kv.Key.(*ast.Ident); ok && k.Name == "ThisName" {
						if id, ok := ast.Unparen(kv.Value).(*ast.Ident); ok && info.ObjectOf(id) == thisParam {
							okThis = true
						}
					}
				}
			}
			if !okThis {
				problems = append(problems, "an attribute identifier is created without ThisName being the map's name")
			}
			// must not shadow the constants: if a wrapped scope exists, its lookup has to come first
			if g.Live(r) {
				_ = r
			}
		}
		return true
	})
	// the lookup in the wrapped scope dominates the unconditional attribute fallback
	var lookup *ast.CallExpr
	recvObj := types.Object(nil)
	if len(fd.Recv.List[0].Names) == 1 {
		recvObj = info.Defs[fd.Recv.List[0].Names[0]]
	}
	fwdScope := scopeForwarders(c, root)
	inspectNoLit(lit.Body, func(x ast.Node) bool {
		if call, ok := x.(*ast.CallExpr); ok {
			if id, ok := ast.Unparen(call.Fun).(*ast.Ident); ok && info.ObjectOf(id) == recvObj {
				lookup = call
			}
			// c.lookup(name): a method that only forwards to c(name)
			if sel, ok := ast.Unparen(call.Fun).(*ast.SelectorExpr); ok {
				if id, ok := ast.Unparen(sel.X).(*ast.Ident); ok && info.ObjectOf(id) == recvObj {
					if cal := Callee(info, call); cal != nil && fwdScope[cal] {
						lookup = call
					}
				}
			}
		}
		return true
	})
	if lookup == nil {
		problems = append(problems, "the wrapped scope is never consulted: constants and static functions are shadowed by attributes of the same name")
	} else {
		// no path on which the wrapped scope exists (c != nil) reaches an attribute return without the lookup
		isNilFact := func(cond ast.Expr, val bool) bool {
			var facts []Guard
			expandGuard(cond, val, &facts)
			for _, gd := range facts {
				if be, ok := ast.Unparen(gd.Cond).(*ast.BinaryExpr); ok && (be.Op == token.EQL || be.Op == token.NEQ) {
					x, okx := ast.Unparen(be.X).(*ast.Ident)
					y, oky := ast.Unparen(be.Y).(*ast.Ident)
					if okx && oky && y.Name == "nil" && info.ObjectOf(x) == recvObj {
						if (be.Op == token.EQL) == gd.Val {
							return true // this edge is taken only if c == nil
						}
					}
				}
			}
			return false
		}
		inspectNoLit(lit.Body, func(x ast.Node) bool {
			r, ok := x.(*ast.ReturnStmt)
			if !ok || len(r.Results) != 2 {
				return true
			}
			if _, isLit := ast.Unparen(r.Results[0]).(*ast.CompositeLit); !isLit {
				return true
			}
			found, _ := g.PathAvoidingEdges(
				func(n ast.Node) bool { return n == ast.Node(r) },
				func(n ast.Node) bool { return containsNode(n, func(m ast.Node) bool { return m == ast.Node(lookup) }) },
				func(cond ast.Expr, val bool) bool { return !isNilFact(cond, val) })
			if found {
				problems = append(problems, "an attribute is returned on a path that did not ask the existing wrapped scope: constants and static functions are shadowed by attributes of the same name")
			}
			return true
		})
	}
	if nWrapped == 0 || nAttr == 0 {
		c.Undecided(key, lit.Pos(), "shape not recognised (%d wrapped returns, %d attribute returns)", nWrapped, nAttr)
		return
	}
	c.Check(len(problems) == 0, key, lit.Pos(), "constants and static functions of the wrapped scope win; every other name becomes an attribute of the map", strings.Join(problems, "; "))
}

// ---------------------------------------------------------------------------
// R16.2 GenerateWithMap: one name for the stack argument and the map, arguments shadow attributes

func ruleR162(c *Ctx) {
	a := c.genAnchors()
	root := c.Pkg("")
	if len(a.missing) > 0 || root == nil {
		c.Undecided("anchors", token.NoPos, "not found")
		return
	}
	info := a.fg.TypesInfo
	// wherever the scopes are stacked: AddMap is never applied to a scope that already holds the arguments. AddMap
	// only lets constants and static functions of the scope below it through, so with the arguments underneath, the
	// map's own name is no longer the argument but an attribute of itself (this becomes this.this)
	{
		n := 0
		for _, f := range a.fg.Syntax {
			for _, d := range f.Decls {
				fd, ok := d.(*ast.FuncDecl)
				if !ok || fd.Body == nil {
					continue
				}
				ast.Inspect(fd.Body, func(x ast.Node) bool {
					call, ok := x.(*ast.CallExpr)
					if !ok {
						return true
					}
					sel, ok := ast.Unparen(call.Fun).(*ast.SelectorExpr)
					if !ok || sel.Sel.Name != "AddMap" || !isNamed(info.TypeOf(sel.X), modPath, "Identifiers") {
						return true
					}
					n++
					k := fmt.Sprintf("%s#AddMap-below-arguments[%d]", declName(a.fg, fd), n)
					holdsArgs := false
					seen := map[types.Object]bool{}
					var origin func(e ast.Expr, depth int)
					origin = func(e ast.Expr, depth int) {
						if depth > 4 || holdsArgs {
							return
						}
						if containsNode(e, func(y ast.Node) bool {
							cc, ok := y.(*ast.CallExpr)
							if !ok {
								return false
							}
							s2, ok := ast.Unparen(cc.Fun).(*ast.SelectorExpr)
							return ok && s2.Sel.Name == "AddArgs"
						}) {
							holdsArgs = true
							return
						}
						ast.Inspect(e, func(y ast.Node) bool {
							id, ok := y.(*ast.Ident)
							if !ok {
								return true
							}
							obj := info.ObjectOf(id)
							if v, isVar := obj.(*types.Var); !isVar || v.IsField() || seen[obj] {
								return true
							}
							seen[obj] = true
							ast.Inspect(fd.Body, func(z ast.Node) bool {
								as, ok := z.(*ast.AssignStmt)
								if !ok || len(as.Lhs) != len(as.Rhs) || as.Pos() > call.Pos() {
									return true
								}
								for i, l := range as.Lhs {
									if li, ok := l.(*ast.Ident); ok && info.ObjectOf(li) == obj && ast.Unparen(as.Rhs[i]) != ast.Expr(call) {
										origin(as.Rhs[i], depth+1)
									}
								}
								return true
							})
							return true
						})
					}
					origin(sel.X, 0)
					if holdsArgs {
						c.Violation(k, call.Pos(), "AddMap is applied to a scope that already holds the arguments (AddArgs below AddMap): AddMap lets only constants and static functions of the scope below it through, so the name of the map itself is no longer the argument but is looked up as an attribute of the map (this.size() becomes this.this.size(): 'key this not found')")
					} else {
						c.OK(k, call.Pos(), "AddMap wraps a scope without arguments; the arguments are added on top")
					}
					return true
				})
			}
		}
	}
	addMap := LookupMethod(root, "Identifiers", "AddMap")
	addArgs := LookupMethod(root, "Identifiers", "AddArgs")
	gwm := c.FuncDecl(a.fg, "FunctionGenerator", "GenerateWithMap")
	gi := c.FuncDecl(a.fg, "FunctionGenerator", "generateIntern")
	key := "funcGen.FunctionGenerator.GenerateWithMap"
	if addMap == nil || addArgs == nil || gwm == nil || gi == nil {
		c.Undecided(key, token.NoPos, "anchor not found")
		return
	}
	var problems []string
	// in GenerateWithMap: AddMap(x) on the generator's identifiers, x also the only stack argument
	var mapArg ast.Expr
	var addMapCall *ast.CallExpr
	ast.Inspect(gwm.Body, func(x ast.Node) bool {
		if call, ok := x.(*ast.CallExpr); ok && isCallTo(info, call, addMap) && len(call.Args) == 1 {
			addMapCall = call
			mapArg = call.Args[0]
		}
		return true
	})
	if addMapCall == nil {
		// AddMap may have moved into generateIntern
		ast.Inspect(gi.Body, func(x ast.Node) bool {
			if call, ok := x.(*ast.CallExpr); ok && isCallTo(info, call, addMap) {
				addMapCall = call
			}
			return true
		})
		if addMapCall == nil {
			c.Undecided(key, gwm.Pos(), "no AddMap call found")
			return
		}
	}
	// AddMap must wrap the plain generator scope: no AddArgs inside its receiver
	if sel, ok := ast.Unparen(addMapCall.Fun).(*ast.SelectorExpr); ok {
		if containsNode(sel.X, func(y ast.Node) bool {
			cc, ok := y.(*ast.CallExpr)
			return ok && isCallTo(info, cc, addArgs)
		}) {
			problems = append(problems, "AddMap is applied on top of AddArgs: the arguments of the function (among them the map itself) are looked up as attributes of the map, because AddMap lets only constants of the wrapped scope win")
		}
		// the same holds if the receiver is a variable that holds an AddArgs result
		if id, ok := ast.Unparen(sel.X).(*ast.Ident); ok {
			fd := c.EnclosingDecl(addMapCall)
			ast.Inspect(fd.Body, func(y ast.Node) bool {
				as, ok := y.(*ast.AssignStmt)
				if !ok || as.Pos() > addMapCall.Pos() {
					return true
				}
				for i, l := range as.Lhs {
					if lid, ok := l.(*ast.Ident); ok && info.ObjectOf(lid) == info.ObjectOf(id) && len(as.Rhs) == len(as.Lhs) {
						if containsNode(as.Rhs[i], func(z ast.Node) bool {
							cc, ok := z.(*ast.CallExpr)
							return ok && isCallTo(info, cc, addArgs)
						}) {
							problems = append(problems, "AddMap is applied to a scope that already contains the function arguments (AddArgs): the map's own name resolves to an attribute of the map")
						}
					}
				}
				return true
			})
		}
	}
	// the stack argument list of the generated function consists of exactly that name
	if mapArg != nil {
		okArgs := false
		ast.Inspect(gwm.Body, func(x ast.Node) bool {
			cl, ok := x.(*ast.CompositeLit)
			if !ok || len(cl.Elts) != 1 {
				return true
			}
			if nodeStr(c.Fset, cl.Elts[0]) == nodeStr(c.Fset, mapArg) {
				okArgs = true
			}
			return true
		})
		if !okArgs {
			problems = append(problems, "the single stack argument of the generated function is not the name the attributes are attached to")
		}
	}
	// sibling agreement: Generate (explicit mode) and GenerateWithMap (implicit mode) resolve names against the same base
	// scope; only the AddMap wrapper may differ. Both hand their scope to generateIntern.
	if gen := c.FuncDecl(a.fg, "FunctionGenerator", "Generate"); gen != nil {
		giObj := info.Defs[gi.Name]
		scopeArg := func(fd *ast.FuncDecl) ast.Expr {
			var arg ast.Expr
			ast.Inspect(fd.Body, func(x ast.Node) bool {
				call, ok := x.(*ast.CallExpr)
				if !ok {
					return true
				}
				if cal := Callee(info, call); cal == nil || types.Object(cal) != giObj && cal.Origin() != giObj {
					return true
				}
				for _, ar := range call.Args {
					if isNamed(info.TypeOf(ar), modPath, "Identifiers") {
						arg = ar
					}
				}
				return true
			})
			if arg == nil {
				return nil
			}
			// through a local variable
			if id, ok := ast.Unparen(arg).(*ast.Ident); ok {
				if as, i := definingAssign(info, fd, info.ObjectOf(id)); as != nil && len(as.Lhs) == len(as.Rhs) {
					arg = as.Rhs[i]
				}
			}
			// strip the AddArgs wrapper (the arguments may be added by the callers of generateIntern) and the AddMap wrapper
			if call, ok := ast.Unparen(arg).(*ast.CallExpr); ok && isCallTo(info, call, addArgs) {
				if sel, ok := ast.Unparen(call.Fun).(*ast.SelectorExpr); ok {
					arg = sel.X
				}
			}
			if call, ok := ast.Unparen(arg).(*ast.CallExpr); ok && isCallTo(info, call, addMap) {
				if sel, ok := ast.Unparen(call.Fun).(*ast.SelectorExpr); ok {
					arg = sel.X
				}
			}
			return ast.Unparen(arg)
		}
		ge, we := scopeArg(gen), scopeArg(gwm)
		if ge != nil && we != nil && nodeStr(c.Fset, ge) != nodeStr(c.Fset, we) {
			problems = append(problems, fmt.Sprintf("Generate resolves names against %s, GenerateWithMap wraps %s with AddMap: the two modes do not see the same constants and static functions (a name that only one base scope knows is an attribute in one mode and a function/constant in the other)", nodeStr(c.Fset, ge), nodeStr(c.Fset, we)))
		}
	}
	// generateIntern: AddArgs on the incoming scope (arguments shadow everything)
	hasAddArgs := containsNode(gi.Body, func(y ast.Node) bool {
		cc, ok := y.(*ast.CallExpr)
		return ok && isCallTo(info, cc, addArgs)
	})
	if !hasAddArgs {
		// the arguments may be registered by every caller of generateIntern instead
		inAll, nCallers := true, 0
		giObj := info.Defs[gi.Name]
		for _, f := range a.fg.Syntax {
			for _, d := range f.Decls {
				fd, ok := d.(*ast.FuncDecl)
				if !ok || fd.Body == nil || fd == gi {
					continue
				}
				callsGI := containsNode(fd.Body, func(y ast.Node) bool {
					cc, ok := y.(*ast.CallExpr)
					if !ok {
						return false
					}
					cal := Callee(info, cc)
					return cal != nil && (types.Object(cal) == giObj || cal.Origin() == giObj)
				})
				if !callsGI {
					continue
				}
				nCallers++
				if !containsNode(fd.Body, func(y ast.Node) bool {
					cc, ok := y.(*ast.CallExpr)
					return ok && isCallTo(info, cc, addArgs)
				}) {
					inAll = false
				}
			}
		}
		hasAddArgs = nCallers > 0 && inAll
	}
	if !hasAddArgs {
		problems = append(problems, "generateIntern does not register the arguments with AddArgs")
	}
	c.Check(len(problems) == 0, key, gwm.Pos(), "the map's name is the single stack argument and the attribute owner; AddMap wraps the generator scope and the arguments are added on top", strings.Join(problems, "; "))
}

// ---------------------------------------------------------------------------
// R16.3 / R01.7 scopes: a closure scope is used for the closure body only; the recorded outer name is the deduplicated one

func ruleR163(c *Ctx) {
	root := c.Pkg("")
	if root == nil {
		c.Undecided("package parser2", token.NoPos, "not found")
		return
	}
	info := root.TypesInfo
	addArgs := LookupMethod(root, "Identifiers", "AddArgs")
	if addArgs == nil {
		c.Undecided("parser2.Identifiers.AddArgs", token.NoPos, "not found")
		return
	}
	// (a) every scope that contains closure parameters is used by exactly one parse call
	n := 0
	for _, f := range root.Syntax {
		for _, d := range f.Decls {
			fd, ok := d.(*ast.FuncDecl)
			if !ok || fd.Body == nil || fd.Recv == nil || recvTypeName(fd.Recv.List[0].Type) != "Parser" {
				continue
			}
			ast.Inspect(fd.Body, func(x ast.Node) bool {
				call, ok := x.(*ast.CallExpr)
				if !ok || !isCallTo(info, call, addArgs) {
					return true
				}
				n++
				key := fmt.Sprintf("%s#closure-scope[%d]", declName(root, fd), ordinalIn(fd, call, func(y ast.Node) bool {
					cc, ok := y.(*ast.CallExpr)
					return ok && isCallTo(info, cc, addArgs)
				}))
				// the outermost expression this AddArgs call is part of
				var top ast.Node = call
				for q := c.Parent(top); q != nil; q = c.Parent(q) {
					if _, isExpr := q.(ast.Expr); !isExpr {
						break
					}
					if oc, isCall := q.(*ast.CallExpr); isCall {
						if s, isSel := ast.Unparen(oc.Fun).(*ast.SelectorExpr); isSel && isNamed(info.TypeOf(s.X), modPath, "Identifiers") {
							top = q
							continue
						}
						break
					}
					top = q
				}
				switch p := c.Parent(top).(type) {
				case *ast.CallExpr:
					c.OK(key, call.Pos(), "the scope with the closure parameters is passed directly to the one call that parses the closure body")
					_ = p
				case *ast.AssignStmt:
					// held in a variable: how often is it used?
					uses := 0
					for _, l := range p.Lhs {
						if id, ok := l.(*ast.Ident); ok {
							obj := info.ObjectOf(id)
							ast.Inspect(fd.Body, func(y ast.Node) bool {
								if uid, ok := y.(*ast.Ident); ok && info.ObjectOf(uid) == obj && info.Defs[uid] == nil && uid != id {
									uses++
								}
								return true
							})
						}
					}
					if uses == 1 {
						c.OK(key, call.Pos(), "the scope with the closure parameters is used once")
					} else {
						c.Violation(key, call.Pos(), "the scope that contains the parameters of a closure/func is kept in a variable and used %d times: code outside the closure body (e.g. the rest of the program behind 'func f(a) ...;') is parsed with the closure's parameters in scope, so a free identifier of that name no longer denotes the outer binding / the attribute", uses)
					}
				default:
					c.Undecided(key, call.Pos(), "use of the closure scope not understood")
				}
				return true
			})
		}
	}
	if n < 3 {
		c.Undecided("parser2.Parser#closure-scopes", token.NoPos, "only %d AddArgs calls found", n)
	}
	// (b) in AddArgs the value that is searched for in the outer-name list is the value that gets appended
	fd := c.FuncDecl(root, "Identifiers", "AddArgs")
	key := "parser2.Identifiers.AddArgs#dedup-key"
	if fd == nil {
		c.Undecided(key, token.NoPos, "not found")
		return
	}
	var appended, compared []string
	var scanBody ast.Node = fd.Body
	if rfs := c.returnedFuncs(root, fd); len(rfs) == 1 {
		scanBody = rfs[0].body
	}
	ast.Inspect(scanBody, func(x ast.Node) bool {
		switch t := x.(type) {
		case *ast.CallExpr:
			if id, ok := ast.Unparen(t.Fun).(*ast.Ident); ok && id.Name == "append" && len(t.Args) == 2 {
				if _, isStar := ast.Unparen(t.Args[0]).(*ast.StarExpr); isStar {
					appended = append(appended, nodeStr(c.Fset, t.Args[1]))
				}
			}
			// slices.Contains(*outersUsed, outer)
			if cal := Callee(info, t); cal != nil && cal.Pkg() != nil && cal.Pkg().Path() == "slices" && (cal.Name() == "Contains" || cal.Name() == "Index") && len(t.Args) == 2 {
				if _, isStar := ast.Unparen(t.Args[0]).(*ast.StarExpr); isStar {
					compared = append(compared, nodeStr(c.Fset, t.Args[1]))
				}
			}
			// a membership helper of the package: containsString(*outersUsed, outer) with a loop that compares the
			// elements of its first parameter with its second one
			if cal := Callee(info, t); cal != nil && cal.Pkg() == root.Types && len(t.Args) == 2 {
				if _, isStar := ast.Unparen(t.Args[0]).(*ast.StarExpr); isStar {
					if hd := findFuncDecl(root, cal); hd != nil && hd.Body != nil && hd.Recv == nil && hd.Type.Params.NumFields() == 2 {
						var ps []types.Object
						for _, fl := range hd.Type.Params.List {
							for _, nm := range fl.Names {
								ps = append(ps, info.Defs[nm])
							}
						}
						member := false
						ast.Inspect(hd.Body, func(y ast.Node) bool {
							rs, ok := y.(*ast.RangeStmt)
							if !ok || len(ps) != 2 {
								return true
							}
							xid, ok1 := ast.Unparen(rs.X).(*ast.Ident)
							vid, ok2 := rs.Value.(*ast.Ident)
							if !ok1 || !ok2 || info.ObjectOf(xid) != ps[0] {
								return true
							}
							ast.Inspect(rs.Body, func(z ast.Node) bool {
								if be, ok := z.(*ast.BinaryExpr); ok && be.Op == token.EQL {
									a, okA := ast.Unparen(be.X).(*ast.Ident)
									b, okB := ast.Unparen(be.Y).(*ast.Ident)
									if okA && okB && (info.ObjectOf(a) == info.ObjectOf(vid) && info.ObjectOf(b) == ps[1] || info.ObjectOf(b) == info.ObjectOf(vid) && info.ObjectOf(a) == ps[1]) {
										member = true
									}
								}
								return true
							})
							return true
						})
						if member {
							compared = append(compared, nodeStr(c.Fset, t.Args[1]))
						}
					}
				}
			}
		case *ast.RangeStmt:
			if _, isStar := ast.Unparen(t.X).(*ast.StarExpr); isStar {
				if v, ok := t.Value.(*ast.Ident); ok {
					ast.Inspect(t.Body, func(y ast.Node) bool {
						if be, ok := y.(*ast.BinaryExpr); ok && be.Op == token.EQL {
							if id, ok := ast.Unparen(be.X).(*ast.Ident); ok && id.Name == v.Name {
								compared = append(compared, nodeStr(c.Fset, be.Y))
							} else if id, ok := ast.Unparen(be.Y).(*ast.Ident); ok && id.Name == v.Name {
								compared = append(compared, nodeStr(c.Fset, be.X))
							}
						}
						return true
					})
				}
			}
		}
		return true
	})
	if len(appended) != 1 || len(compared) != 1 {
		c.Undecided(key, fd.Pos(), "append/compare of the outer-name list not recognised (%v / %v)", appended, compared)
		return
	}
	c.Check(appended[0] == compared[0], key, fd.Pos(), "the name searched for in the list of outer names is the name that is appended", fmt.Sprintf("the list of outer names is searched for %s but %s is appended: the same outer value is recorded once per use (duplicates in OuterIdents)", compared[0], appended[0]))
}

// ---------------------------------------------------------------------------
// R16.4 every attribute identifier is rewritten to a map access

// ruleR164: in the parser, an identifier that the scope resolved to an
// attribute of the argument map (Identifier.ThisName set) must become
// MapAccess{Key: name, MapValue: Ident{ThisName}} wherever it occurs. Hence a
// plain &Ident{Name: name} for a resolved, non constant identifier may only be
// built where ThisName is known to be empty.
func ruleR164(c *Ctx) {
	root := c.Pkg("")
	if root == nil {
		c.Undecided("package parser2", token.NoPos, "not found")
		return
	}
	info := root.TypesInfo
	fd := c.FuncDecl(root, "Parser", "parseLiteral")
	if fd == nil {
		c.Undecided("parser2.Parser.parseLiteral", token.NoPos, "not found")
		return
	}
	g := c.CFG(fd)
	nPlain, nAccess := 0, 0
	ast.Inspect(fd.Body, func(x ast.Node) bool {
		cl, ok := x.(*ast.CompositeLit)
		if !ok {
			return true
		}
		if isNamed(info.TypeOf(cl), modPath, "MapAccess") {
			// MapValue: &Ident{Name: i.ThisName}
			if containsNode(cl, func(y ast.Node) bool {
				s, ok := y.(*ast.SelectorExpr)
				return ok && s.Sel.Name == "ThisName"
			}) {
				nAccess++
				key := fmt.Sprintf("parser2.Parser.parseLiteral#attribute-access[%d]", nAccess)
				// guarded by ThisName != "" and nothing that depends on the following input
				var extra []string
				for _, gd := range g.Guards(cl) {
					if gd.Derived {
						continue
					}
					if containsNode(gd.Cond, func(y ast.Node) bool {
						call, ok := y.(*ast.CallExpr)
						if !ok {
							return false
						}
						sel, ok := ast.Unparen(call.Fun).(*ast.SelectorExpr)
						return ok && (sel.Sel.Name == "Peek" || sel.Sel.Name == "Next") && isNamed(info.TypeOf(sel.X), modPath, "Tokenizer")
					}) {
						// the closure form `name -> body`: the test is false here and its true branch builds a closure literal -
						// an identifier in front of the arrow is a parameter, not an attribute
						exempt := false
						if !gd.Val {
							for q := c.Parent(gd.Cond); q != nil && q != ast.Node(fd); q = c.Parent(q) {
								if ifs, ok := q.(*ast.IfStmt); ok && containsNode(ifs.Cond, func(z ast.Node) bool { return z == ast.Node(gd.Cond) }) {
									if containsNode(ifs.Body, func(z ast.Node) bool {
										l, ok := z.(*ast.CompositeLit)
										return ok && isNamed(info.TypeOf(l), modPath, "ClosureLiteral")
									}) {
										exempt = true
									}
									break
								}
							}
						}
						if !exempt {
							extra = append(extra, nodeStr(c.Fset, gd.Cond))
						}
					}
				}
				c.Check(len(extra) == 0, key, cl.Pos(), "an attribute identifier becomes a map access whatever follows it",
					"whether an attribute identifier becomes a map access depends on the following token ("+strings.Join(extra, ", ")+"): in that position (e.g. a call of a closure valued attribute) the attribute is not found")
			}
			return true
		}
		if !isNamed(info.TypeOf(cl), modPath, "Ident") {
			return true
		}
		// a plain identifier node, built where a scope lookup has succeeded?
		var lookupVar types.Object
		for _, gd := range g.Guards(cl) {
			if id, ok := ast.Unparen(gd.Cond).(*ast.Ident); ok && gd.Val {
				if as, i := definingAssign(info, fd, info.ObjectOf(id)); as != nil && i == 1 && len(as.Rhs) == 1 && len(as.Lhs) == 2 {
					if call, ok := ast.Unparen(as.Rhs[0]).(*ast.CallExpr); ok && isNamed(info.TypeOf(call.Fun), modPath, "Identifiers") {
						if l, ok := as.Lhs[0].(*ast.Ident); ok {
							lookupVar = info.ObjectOf(l)
						}
					}
				}
			}
		}
		if lookupVar == nil {
			return true
		}
		// not the MapValue of a map access
		if kv, ok := c.Parent(c.Parent(cl)).(*ast.KeyValueExpr); ok {
			if k, ok := kv.Key.(*ast.Ident); ok && k.Name == "MapValue" {
				return true
			}
		}
		nPlain++
		key := fmt.Sprintf("parser2.Parser.parseLiteral#plain-identifier[%d]", nPlain)
		okGuard := false
		for _, gd := range g.Guards(cl) {
			cond := ast.Unparen(gd.Cond)
			// i.IsConst true (constants and static functions are never attributes) or i.ThisName == ""
			if sel, ok := cond.(*ast.SelectorExpr); ok && gd.Val && sel.Sel.Name == "IsConst" {
				if id, ok := ast.Unparen(sel.X).(*ast.Ident); ok && info.ObjectOf(id) == lookupVar {
					okGuard = true
				}
			}
			if be, ok := cond.(*ast.BinaryExpr); ok {
				if sel, ok := ast.Unparen(be.X).(*ast.SelectorExpr); ok && sel.Sel.Name == "ThisName" {
					if id, ok := ast.Unparen(sel.X).(*ast.Ident); ok && info.ObjectOf(id) == lookupVar {
						if tv := info.Types[be.Y]; tv.Value != nil && tv.Value.Kind() == constant.String && constant.StringVal(tv.Value) == "" {
							if (be.Op == token.EQL && gd.Val) || (be.Op == token.NEQ && !gd.Val) {
								okGuard = true
							}
						}
					}
				}
			}
		}
		c.Check(okGuard, key, cl.Pos(), "a plain identifier node is built only for constants/static functions or where ThisName is empty",
			"a plain identifier node is built for a resolved identifier although its ThisName may be set: an attribute of the argument map in this position is not rewritten to a map access, the generator then reports 'not found'")
		return true
	})
	if nAccess == 0 || nPlain == 0 {
		c.Undecided("parser2.Parser.parseLiteral#identifier-translation", fd.Pos(), "expected the map access and the plain identifier nodes (found %d, %d)", nAccess, nPlain)
	}
}

// ---------------------------------------------------------------------------
// R16.5 scope links pass the looked up name on unchanged

// ruleR165: the scope is a chain of lookup functions, innermost first. Lexical
// scoping rests on each link either answering for the name itself or asking
// its parent for *the same name*. A link that asks the parent for another name
// (an alias resolved at the place of use) is resolved against the scopes that
// lie between the use and the definition: a parameter of a nested closure with
// the aliased name captures the reference (let a = x; [..].map(x -> x + a)).
func ruleR165(c *Ctx) {
	var fwdScope5 map[*types.Func]bool
	root := c.Pkg("")
	if root == nil {
		c.Undecided("package parser2", token.NoPos, "not found")
		return
	}
	info := root.TypesInfo
	n := 0
	for _, f := range root.Syntax {
		for _, d := range f.Decls {
			fd, ok := d.(*ast.FuncDecl)
			if !ok || fd.Body == nil || fd.Recv == nil || recvTypeName(fd.Recv.List[0].Type) != "Identifiers" || len(fd.Recv.List[0].Names) != 1 {
				continue
			}
			obj, _ := info.Defs[fd.Name].(*types.Func)
			if obj == nil {
				continue
			}
			if sig := obj.Type().(*types.Signature); sig.Results().Len() != 1 || !isNamed(sig.Results().At(0).Type(), modPath, "Identifiers") {
				continue
			}
			recv := info.Defs[fd.Recv.List[0].Names[0]]
			if fwdScope5 == nil {
				fwdScope5 = scopeForwarders(c, root)
			}
			for _, rf := range c.returnedFuncs(root, fd) {
				// the name parameter of the lookup function
				var ft *ast.FuncType
				switch t := rf.fn.(type) {
				case *ast.FuncLit:
					ft = t.Type
				case *ast.FuncDecl:
					ft = t.Type
				}
				if ft == nil || ft.Params.NumFields() != 1 || len(ft.Params.List[0].Names) != 1 {
					continue
				}
				nameParam := info.Defs[ft.Params.List[0].Names[0]]
				isParent := func(e ast.Expr) bool {
					switch t := ast.Unparen(e).(type) {
					case *ast.Ident:
						return rf.bind == nil && info.ObjectOf(t) == recv
					case *ast.SelectorExpr:
						// c.lookup: a method that only forwards to c(name)
						if id, ok := ast.Unparen(t.X).(*ast.Ident); ok && rf.bind == nil && info.ObjectOf(id) == recv {
							if fn, ok := info.ObjectOf(t.Sel).(*types.Func); ok && fwdScope5[fn.Origin()] {
								return true
							}
						}
						if rf.bind == nil {
							return false
						}
						if id, ok := ast.Unparen(t.X).(*ast.Ident); ok && info.ObjectOf(id) == rf.recv {
							if be, ok := rf.bind[t.Sel.Name]; ok {
								if bid, ok := ast.Unparen(be).(*ast.Ident); ok && info.ObjectOf(bid) == recv {
									return true
								}
							}
						}
					}
					return false
				}
				k := 0
				ast.Inspect(rf.body, func(x ast.Node) bool {
					call, ok := x.(*ast.CallExpr)
					if !ok || len(call.Args) != 1 || !isParent(call.Fun) {
						return true
					}
					n++
					k++
					key := fmt.Sprintf("%s#parent-lookup[%d]", declName(root, fd), k)
					if id, ok := ast.Unparen(call.Args[0]).(*ast.Ident); ok && info.ObjectOf(id) == nameParam {
						c.OK(key, call.Pos(), "the parent scope is asked for the looked up name itself")
					} else {
						c.Violation(key, call.Pos(), "the parent scope is asked for %s instead of the looked up name: the reference is resolved where it is used, against every scope between the use and the definition, so a parameter or let of that name in a nested closure captures it (lexical scoping is lost)", nodeStr(c.Fset, call.Args[0]))
					}
					return true
				})
			}
		}
	}
	if n < 5 {
		c.Undecided("parser2.Identifiers#parent-lookups", token.NoPos, "only %d parent lookups found", n)
	}
}

// ---------------------------------------------------------------------------
// R16.6 IsMap and AccessMap agree on what a map is.
//
// funcGen asks the map handler IsMap(v) as a gate when it compiles v.name(args)
// (a closure stored in a map field is called instead of a method) and
// AccessMap(v, key) for member access. Implicit attribute mode turns f(a) into
// an attribute access plus a call, explicit mode writes m.f(m.a), which passes
// the IsMap gate: if the two functions of one handler recognise maps
// differently (one by the conversion ToMap, which also accepts values that
// wrap a map, the other by a type assertion), the two modes disagree for such
// values. Sibling agreement: both use the same recogniser.

func ruleR166(c *Ctx) {
	n := 0
	for _, pkg := range c.RepoPkgs {
		if strings.Contains(pkg.PkgPath, "/example") || strings.HasSuffix(pkg.PkgPath, "/gen") {
			continue
		}
		info := pkg.TypesInfo
		byRecv := map[string]map[string]*ast.FuncDecl{}
		for _, f := range pkg.Syntax {
			for _, d := range f.Decls {
				fd, ok := d.(*ast.FuncDecl)
				if !ok || fd.Body == nil || fd.Recv == nil || (fd.Name.Name != "IsMap" && fd.Name.Name != "AccessMap") {
					continue
				}
				r := recvTypeName(fd.Recv.List[0].Type)
				if byRecv[r] == nil {
					byRecv[r] = map[string]*ast.FuncDecl{}
				}
				byRecv[r][fd.Name.Name] = fd
			}
		}
		for r, ms := range byRecv {
			isMap, access := ms["IsMap"], ms["AccessMap"]
			if isMap == nil || access == nil {
				continue
			}
			n++
			recogniser := func(fd *ast.FuncDecl) string {
				if fd.Type.Params == nil || len(fd.Type.Params.List) == 0 || len(fd.Type.Params.List[0].Names) == 0 {
					return "?"
				}
				kinds := map[string]bool{}
				var scan func(fd *ast.FuncDecl, pobj types.Object, depth int)
				scan = func(fd *ast.FuncDecl, pobj types.Object, depth int) {
					ast.Inspect(fd.Body, func(x ast.Node) bool {
						switch t := x.(type) {
						case *ast.CallExpr:
							if sel, ok := ast.Unparen(t.Fun).(*ast.SelectorExpr); ok {
								if id, ok := ast.Unparen(sel.X).(*ast.Ident); ok && info.ObjectOf(id) == pobj {
									kinds["the method "+sel.Sel.Name+"()"] = true
								}
							}
							// the value is handed to a helper of the package: what the helper does with it counts
							if depth < 2 {
								if cal := Callee(info, t); cal != nil && cal.Pkg() == pkg.Types {
									if hd := findFuncDecl(pkg, cal); hd != nil && hd.Body != nil && hd.Type.Params != nil {
										k := 0
										for _, fl := range hd.Type.Params.List {
											for _, nm := range fl.Names {
												if k < len(t.Args) {
													if aid, ok := ast.Unparen(t.Args[k]).(*ast.Ident); ok && info.ObjectOf(aid) == pobj {
														scan(hd, info.Defs[nm], depth+1)
													}
												}
												k++
											}
										}
									}
								}
							}
						case *ast.TypeAssertExpr:
							if id, ok := ast.Unparen(t.X).(*ast.Ident); ok && info.ObjectOf(id) == pobj && t.Type != nil {
								kinds["a type assertion to "+nodeStr(c.Fset, t.Type)] = true
							}
						}
						return true
					})
				}
				scan(fd, info.Defs[fd.Type.Params.List[0].Names[0]], 0)
				var ks []string
				for k := range kinds {
					ks = append(ks, k)
				}
				sort.Strings(ks)
				return strings.Join(ks, " and ")
			}
			a, b := recogniser(isMap), recogniser(access)
			key := declName(pkg, isMap) + "#agrees-with-AccessMap"
			if a == b && a != "" {
				c.OK(key, isMap.Pos(), "IsMap and AccessMap of %s recognise a map by %s", r, a)
			} else {
				c.Violation(key, isMap.Pos(), "IsMap of %s recognises a map by %s, AccessMap by %s: for a value that only one of them accepts (a value that wraps a map, such as a styled or linked map) member access works while the method-call gate does not see a map, so m.f(m.a) and the implicit f(a) behave differently", r, orNothing(a), orNothing(b))
			}
		}
	}
	if n == 0 {
		c.Undecided("repo#map-handlers", token.NoPos, "no type with IsMap and AccessMap found")
	}
}

func orNothing(s string) string {
	if s == "" {
		return "nothing that involves its argument"
	}
	return s
}

// ---------------------------------------------------------------------------
// R16.7 the value of a let is parsed in the enclosing scope
//
// "let x = VALUE; INNER" binds x in INNER only. Inside VALUE the name x still
// means what it meant outside: an argument, an outer binding - or, in implicit
// attribute mode, the attribute m.x, where every name is valid. So the parse
// call that yields the Value of a Let node has to get the scope the function
// itself was given, unextended; only the parse call for Inner gets a scope
// that knows the new name.

func ruleR167(c *Ctx) {
	root := c.Pkg("")
	if root == nil {
		c.Undecided("package parser2", token.NoPos, "not found")
		return
	}
	info := root.TypesInfo
	isScope := func(t types.Type) bool { return isNamed(t, modPath, "Identifiers") }
	scopeParamOf := func(fd *ast.FuncDecl) types.Object {
		var res types.Object
		if fd.Type.Params != nil {
			for _, fl := range fd.Type.Params.List {
				for _, nm := range fl.Names {
					if isScope(info.TypeOf(nm)) {
						res = info.Defs[nm]
					}
				}
			}
		}
		return res
	}
	paramIndex := func(fd *ast.FuncDecl, obj types.Object) int {
		i := 0
		if fd.Type.Params != nil {
			for _, fl := range fd.Type.Params.List {
				for _, nm := range fl.Names {
					if info.Defs[nm] == obj {
						return i
					}
					i++
				}
			}
		}
		return -1
	}
	n := 0
	// check: the value expression e of a Let node built in fd (at pos) comes from a parse call that got fd's own scope
	var check func(fd *ast.FuncDecl, e ast.Expr, before token.Pos, key string, pos token.Pos, depth int)
	check = func(fd *ast.FuncDecl, e ast.Expr, before token.Pos, key string, pos token.Pos, depth int) {
		vid, ok := ast.Unparen(e).(*ast.Ident)
		if !ok {
			n++
			c.OK(key, pos, "the value is built in place")
			return
		}
		vobj := info.ObjectOf(vid)
		// a parameter of a helper that builds the node: the value comes from the callers
		selfOnly := true // value = Optimize(value, ..): the parameter is only ever replaced by a function of itself
		ast.Inspect(fd.Body, func(y ast.Node) bool {
			as, ok := y.(*ast.AssignStmt)
			if !ok || len(as.Lhs) != len(as.Rhs) {
				return true
			}
			for i, l := range as.Lhs {
				if id, ok := l.(*ast.Ident); ok && info.ObjectOf(id) == vobj && !mentions(info, as.Rhs[i], vobj) {
					selfOnly = false
				}
			}
			return true
		})
		if pi := paramIndex(fd, vobj); pi >= 0 && selfOnly {
			fobj, _ := info.Defs[fd.Name].(*types.Func)
			sites := 0
			if fobj != nil && depth < 2 {
				for _, f2 := range root.Syntax {
					for _, d2 := range f2.Decls {
						cfd, ok := d2.(*ast.FuncDecl)
						if !ok || cfd.Body == nil {
							continue
						}
						ast.Inspect(cfd.Body, func(y ast.Node) bool {
							call, ok := y.(*ast.CallExpr)
							if !ok || pi >= len(call.Args) {
								return true
							}
							if cal := Callee(info, call); cal == nil || cal.Origin() != fobj.Origin() {
								return true
							}
							sites++
							check(cfd, call.Args[pi], call.Pos(), fmt.Sprintf("%s@%s[%d]", key, cfd.Name.Name, sites), call.Pos(), depth+1)
							return true
						})
					}
				}
			}
			if sites == 0 {
				n++
				c.Undecided(key, pos, "the value of the let is a parameter of %s, whose callers were not found", fd.Name.Name)
			}
			return
		}
		n++
		// the parse calls that define the value: calls with a scope argument
		var parseCalls []*ast.CallExpr
		ast.Inspect(fd.Body, func(y ast.Node) bool {
			as, ok := y.(*ast.AssignStmt)
			if !ok || len(as.Rhs) != 1 || as.Pos() > before {
				return true
			}
			if id, ok := as.Lhs[0].(*ast.Ident); !ok || info.ObjectOf(id) != vobj {
				return true
			}
			if call, ok := ast.Unparen(as.Rhs[0]).(*ast.CallExpr); ok {
				for _, a := range call.Args {
					if isScope(info.TypeOf(a)) {
						parseCalls = append(parseCalls, call)
						break
					}
				}
			}
			return true
		})
		if len(parseCalls) == 0 {
			c.OK(key, pos, "the value is not the result of a parse call with a scope (a closure literal built in place)")
			return
		}
		scopeParam := scopeParamOf(fd)
		if scopeParam == nil {
			c.Undecided(key, pos, "the function has no scope parameter")
			return
		}
		bad := ""
		for _, call := range parseCalls {
			for _, a := range call.Args {
				if !isScope(info.TypeOf(a)) {
					continue
				}
				// the argument has to be the scope parameter itself (or a local with one definition that is it)
				e := ast.Unparen(a)
				for d := 0; d < 3; d++ {
					id, ok := e.(*ast.Ident)
					if !ok {
						break
					}
					obj := info.ObjectOf(id)
					if obj == scopeParam {
						break
					}
					if as, i := definingAssign(info, fd, obj); as != nil && len(as.Rhs) == len(as.Lhs) && countAssignments(info, fd, obj) == 1 {
						e = ast.Unparen(as.Rhs[i])
						continue
					}
					break
				}
				if id, ok := e.(*ast.Ident); ok && info.ObjectOf(id) == scopeParam && countAssignments(info, fd, scopeParam) == 0 {
					continue
				}
				bad = nodeStr(c.Fset, a)
				if id, ok := ast.Unparen(a).(*ast.Ident); ok && countAssignments(info, fd, info.ObjectOf(id)) > 1 {
					bad += " (assigned more than once: on some path an extended scope)"
				}
			}
		}
		if bad == "" {
			c.OK(key, pos, "the value of the let is parsed with the scope the function was given")
		} else {
			c.Violation(key, pos, "the value of a let is parsed with the scope %s instead of the scope of the enclosing code: a name that the let itself (or anything else added to that scope) binds is then resolved inside the value, where it is not in scope - in implicit attribute mode the attribute of that name is shadowed (let a = x -> x + a means m.a), with explicit arguments an outer binding is", bad)
		}
	}
	for _, f := range root.Syntax {
		for _, d := range f.Decls {
			fd, ok := d.(*ast.FuncDecl)
			if !ok || fd.Body == nil {
				continue
			}
			k := 0
			ast.Inspect(fd.Body, func(x ast.Node) bool {
				cl, ok := x.(*ast.CompositeLit)
				if !ok || !isNamed(info.TypeOf(cl), modPath, "Let") {
					return true
				}
				var value ast.Expr
				for _, e := range cl.Elts {
					if kv, ok := e.(*ast.KeyValueExpr); ok {
						if id, ok := kv.Key.(*ast.Ident); ok && id.Name == "Value" {
							value = kv.Value
						}
					}
				}
				if value == nil {
					return true
				}
				k++
				check(fd, value, cl.Pos(), fmt.Sprintf("%s#let-value-scope[%d]", declName(root, fd), k), cl.Pos(), 0)
				return true
			})
		}
	}
	if n < 2 {
		c.Undecided("parser2#let-nodes", token.NoPos, "only %d constructions of Let nodes found", n)
	}
}

// scopeForwarders: methods of Identifiers that do nothing but ask their receiver for their parameter
// (func (c Identifiers[V]) lookup(name string) (Identifier[V], bool) { if c == nil { return zero, false }; return c(name) }).
// A call c.lookup(x) counts as the parent lookup c(x).
func scopeForwarders(c *Ctx, root *packages.Package) map[*types.Func]bool {
	info := root.TypesInfo
	res := map[*types.Func]bool{}
	for _, f := range root.Syntax {
		for _, d := range f.Decls {
			fd, ok := d.(*ast.FuncDecl)
			if !ok || fd.Body == nil || fd.Recv == nil || recvTypeName(fd.Recv.List[0].Type) != "Identifiers" || len(fd.Recv.List[0].Names) != 1 {
				continue
			}
			if fd.Type.Params.NumFields() != 1 || len(fd.Type.Params.List[0].Names) != 1 {
				continue
			}
			recv := info.Defs[fd.Recv.List[0].Names[0]]
			param := info.Defs[fd.Type.Params.List[0].Names[0]]
			nCalls, okAll := 0, true
			ast.Inspect(fd.Body, func(x ast.Node) bool {
				call, ok := x.(*ast.CallExpr)
				if !ok {
					return true
				}
				if id, ok := ast.Unparen(call.Fun).(*ast.Ident); ok && info.ObjectOf(id) == recv {
					if len(call.Args) == 1 {
						if aid, ok := ast.Unparen(call.Args[0]).(*ast.Ident); ok && info.ObjectOf(aid) == param {
							nCalls++
							return true
						}
					}
					okAll = false
				}
				return true
			})
			if nCalls == 1 && okAll && len(fd.Body.List) <= 2 {
				if obj, ok := info.Defs[fd.Name].(*types.Func); ok {
					res[obj.Origin()] = true
				}
			}
		}
	}
	return res
}
