package main

import (
	"fmt"
	"go/ast"
	"go/constant"
	"go/token"
	"go/types"
	"regexp"
	"sort"
	"strings"

	"golang.org/x/tools/go/packages"

	"golang.org/x/tools/go/cfg"
)

// registration of an operator implementation for a pair of type ids
type registration struct {
	pkg   *packages.Package
	call  *ast.CallExpr
	types []ast.Expr // one (unary) or two type id expressions
	lit   *ast.FuncLit
	owner string // enclosing constructor function (Equal, Less, Add, ...)
	// bind: function valued fields/parameters of a registration helper, bound at the helper's call site in owner
	bind map[types.Object]*ast.FuncLit
	// site: the call of the registration helper in owner (nil for a direct registration)
	site *ast.CallExpr
}

func (c *Ctx) registrations() []registration {
	var res []registration
	for _, pkg := range c.RepoPkgs {
		info := pkg.TypesInfo
		for _, f := range pkg.Syntax {
			ast.Inspect(f, func(x ast.Node) bool {
				call, ok := x.(*ast.CallExpr)
				if !ok {
					return true
				}
				sel, ok := ast.Unparen(call.Fun).(*ast.SelectorExpr)
				if !ok || sel.Sel.Name != "Register" || len(call.Args) < 2 {
					return true
				}
				// a table of entries: for _, e := range []struct{a, b Type; op F}{{IntTypeId, IntTypeId, func..}, ...} { m.Register(e.a, e.b, e.op) }
				if fsel, isSel := ast.Unparen(call.Args[len(call.Args)-1]).(*ast.SelectorExpr); isSel {
					if eid, isID := ast.Unparen(fsel.X).(*ast.Ident); isID {
						if rs := rangeOver(c, info, eid); rs != nil {
							tbl := ast.Unparen(rs.X)
							if tid, ok := tbl.(*ast.Ident); ok {
								if tv, ok := info.ObjectOf(tid).(*types.Var); ok {
									if rhs, has := singleDefExpr[tv]; has {
										tbl = ast.Unparen(rhs)
									}
								}
							}
							if cl, ok := tbl.(*ast.CompositeLit); ok {
								if st, ok := info.TypeOf(eid).Underlying().(*types.Struct); ok {
									owner := ""
									if fd := c.EnclosingDecl(call); fd != nil {
										owner = fd.Name.Name
									}
									okAll := true
									var rows []registration
									for _, el := range cl.Elts {
										ecl, ok := ast.Unparen(el).(*ast.CompositeLit)
										if !ok {
											okAll = false
											break
										}
										fields := map[string]ast.Expr{}
										for i, fe := range ecl.Elts {
											if kv, ok := fe.(*ast.KeyValueExpr); ok {
												if kid, ok := kv.Key.(*ast.Ident); ok {
													fields[kid.Name] = kv.Value
												}
											} else if i < st.NumFields() {
												fields[st.Field(i).Name()] = fe
											}
										}
										var tys []ast.Expr
										for _, a := range call.Args[:len(call.Args)-1] {
											as, ok := ast.Unparen(a).(*ast.SelectorExpr)
											if !ok || fields[as.Sel.Name] == nil {
												okAll = false
												break
											}
											tys = append(tys, fields[as.Sel.Name])
										}
										fl, _ := ast.Unparen(fields[fsel.Sel.Name]).(*ast.FuncLit)
										if fl == nil {
											if fid, ok := ast.Unparen(fields[fsel.Sel.Name]).(*ast.Ident); ok {
												if fn, isFn := info.Uses[fid].(*types.Func); isFn && fn.Pkg() == pkg.Types {
													if nd := findFuncDecl(pkg, fn); nd != nil && nd.Body != nil {
														fl = namedCellLit(nd)
													}
												}
											}
										}
										if !okAll || fl == nil {
											okAll = false
											break
										}
										rows = append(rows, registration{pkg: pkg, call: call, types: tys, lit: fl, owner: owner})
									}
									if okAll && len(rows) > 0 {
										res = append(res, rows...)
										return true
									}
								}
							}
						}
					}
				}
				lit, ok := ast.Unparen(call.Args[len(call.Args)-1]).(*ast.FuncLit)
				if !ok {
					// a named function of the package: m.Register(IntTypeId, IntTypeId, lessIntInt)
					if id, isID := ast.Unparen(call.Args[len(call.Args)-1]).(*ast.Ident); isID {
						if fn, isFn := info.Uses[id].(*types.Func); isFn && fn.Pkg() == pkg.Types {
							if nd := findFuncDecl(pkg, fn); nd != nil && nd.Body != nil {
								lit, ok = namedCellLit(nd), true
							}
						}
					}
				}
				if !ok {
					// a function kept in a local variable: numLess := func(...) {...}; m.Register(ta, tb, numLess)
					if id, isID := ast.Unparen(call.Args[len(call.Args)-1]).(*ast.Ident); isID {
						if v, isVar := info.ObjectOf(id).(*types.Var); isVar {
							if rhs, has := singleDefExpr[v]; has {
								lit, ok = ast.Unparen(rhs).(*ast.FuncLit)
							}
						}
					}
					if !ok {
						return true
					}
				}
				for _, a := range call.Args[:len(call.Args)-1] {
					if !isNamed(info.TypeOf(a), modPath+"/value", "Type") {
						return true
					}
				}
				owner := ""
				if fd := c.EnclosingDecl(call); fd != nil {
					owner = fd.Name.Name
				}
				// type ids that are the variables of range loops over literal lists of type ids:
				// for _, ta := range []Type{IntTypeId, FloatTypeId} { for _, tb := range ... { m.Register(ta, tb, f) } }
				combos := [][]ast.Expr{nil}
				for _, a := range call.Args[:len(call.Args)-1] {
					alts := []ast.Expr{a}
					if id, isID := ast.Unparen(a).(*ast.Ident); isID {
						if rs := rangeOver(c, info, id); rs != nil {
							if cl, isLit := ast.Unparen(rs.X).(*ast.CompositeLit); isLit && len(cl.Elts) > 0 {
								alts = nil
								for _, el := range cl.Elts {
									alts = append(alts, el)
								}
							}
						}
					}
					var next [][]ast.Expr
					for _, cb := range combos {
						for _, alt := range alts {
							next = append(next, append(append([]ast.Expr{}, cb...), alt))
						}
					}
					combos = next
				}
				for _, cb := range combos {
					res = append(res, registration{pkg: pkg, call: call, types: cb, lit: lit, owner: owner})
				}
				return true
			})
		}
	}
	// registration helpers: a method of a struct with function valued fields (or a function with function valued
	// parameters) that registers cells built around them; its registrations belong to every constructor that calls it
	var extra []registration
	for _, pkg := range c.RepoPkgs {
		info := pkg.TypesInfo
		for _, f := range pkg.Syntax {
			ast.Inspect(f, func(x ast.Node) bool {
				call, ok := x.(*ast.CallExpr)
				if !ok {
					return true
				}
				cal := Callee(info, call)
				if cal == nil || cal.Pkg() != pkg.Types {
					return true
				}
				hd := findFuncDecl(pkg, cal)
				caller := c.EnclosingDecl(call)
				if hd == nil || hd.Body == nil || caller == nil || hd == caller {
					return true
				}
				var inner []registration
				for _, r := range res {
					if r.pkg == pkg && c.EnclosingDecl(r.call) == hd {
						inner = append(inner, r)
					}
				}
				if len(inner) == 0 {
					return true
				}
				bind := map[types.Object]*ast.FuncLit{}
				// fields of a composite literal receiver
				if sel, ok := ast.Unparen(call.Fun).(*ast.SelectorExpr); ok {
					if cl, ok := ast.Unparen(sel.X).(*ast.CompositeLit); ok {
						if st, ok := info.TypeOf(cl).Underlying().(*types.Struct); ok {
							for _, el := range cl.Elts {
								if kv, ok := el.(*ast.KeyValueExpr); ok {
									if k, ok := kv.Key.(*ast.Ident); ok {
										if l, ok := ast.Unparen(kv.Value).(*ast.FuncLit); ok {
											for i := 0; i < st.NumFields(); i++ {
												if st.Field(i).Name() == k.Name {
													bind[st.Field(i)] = l
												}
											}
										}
									}
								}
							}
						}
					}
				}
				// function literal arguments
				i := 0
				for _, fl := range hd.Type.Params.List {
					for _, nm := range fl.Names {
						if i < len(call.Args) {
							if l, ok := ast.Unparen(call.Args[i]).(*ast.FuncLit); ok {
								bind[info.Defs[nm]] = l
							}
						}
						i++
					}
				}
				if len(bind) == 0 {
					return true
				}
				// parameters of the helper that carry the type ids of the cell
				paramIdx := map[types.Object]int{}
				pi := 0
				for _, fl := range hd.Type.Params.List {
					for _, nm := range fl.Names {
						paramIdx[info.Defs[nm]] = pi
						pi++
					}
				}
				for _, r := range inner {
					r2 := r
					r2.owner = caller.Name.Name
					r2.bind = bind
					r2.types = nil
					for _, t := range r.types {
						if id, ok := ast.Unparen(t).(*ast.Ident); ok {
							if k, ok := paramIdx[info.ObjectOf(id)]; ok && k < len(call.Args) {
								r2.types = append(r2.types, call.Args[k])
								continue
							}
						}
						r2.types = append(r2.types, t)
					}
					r2.site = call
					extra = append(extra, r2)
				}
				return true
			})
		}
	}
	return append(res, extra...)
}

// typeIdToGoType maps the type id variables to the Go types whose GetType returns them.
func (c *Ctx) typeIdToGoType() map[types.Object][]types.Type {
	res := map[types.Object][]types.Type{}
	for _, pkg := range c.RepoPkgs {
		info := pkg.TypesInfo
		for _, f := range pkg.Syntax {
			for _, d := range f.Decls {
				fd, ok := d.(*ast.FuncDecl)
				if !ok || fd.Recv == nil || fd.Name.Name != "GetType" || fd.Body == nil || len(fd.Body.List) != 1 {
					continue
				}
				r, ok := fd.Body.List[0].(*ast.ReturnStmt)
				if !ok || len(r.Results) != 1 {
					continue
				}
				var idObj types.Object
				switch t := ast.Unparen(r.Results[0]).(type) {
				case *ast.Ident:
					idObj = info.ObjectOf(t)
				case *ast.SelectorExpr:
					idObj = info.ObjectOf(t.Sel)
				}
				if idObj == nil {
					continue
				}
				res[idObj] = append(res[idObj], info.TypeOf(fd.Recv.List[0].Type))
			}
		}
	}
	return res
}

// ---------------------------------------------------------------------------
// R14.3 (= R05.7) registration / assertion agreement

func ruleR143(c *Ctx) {
	idTypes := c.typeIdToGoType()
	if len(idTypes) < 8 {
		c.Undecided("value#GetType-methods", token.NoPos, "only %d type ids resolved", len(idTypes))
		return
	}
	regs := c.registrations()
	n := 0
	for _, r := range regs {
		info := r.pkg.TypesInfo
		// operand parameters: the last len(types) parameters of the literal
		var params []types.Object
		for _, f := range r.lit.Type.Params.List {
			for _, nm := range f.Names {
				params = append(params, info.Defs[nm])
			}
		}
		if len(params) < len(r.types) {
			continue
		}
		params = params[len(params)-len(r.types):]
		var tn []string
		for _, t := range r.types {
			tn = append(tn, nodeStr(c.Fset, t))
		}
		n++
		key := fmt.Sprintf("%s.%s#Register(%s)", strings.TrimPrefix(strings.TrimPrefix(r.pkg.PkgPath, modPath), "/"), r.owner, strings.Join(tn, ","))
		var problems []string
		for i, p := range params {
			var idObj types.Object
			switch t := ast.Unparen(r.types[i]).(type) {
			case *ast.Ident:
				idObj = info.ObjectOf(t)
			case *ast.SelectorExpr:
				idObj = info.ObjectOf(t.Sel)
			}
			goTypes := idTypes[idObj]
			if len(goTypes) == 0 {
				continue
			}
			ast.Inspect(r.lit.Body, func(x ast.Node) bool {
				ta, ok := x.(*ast.TypeAssertExpr)
				if !ok || ta.Type == nil {
					return true
				}
				id, ok := ast.Unparen(ta.X).(*ast.Ident)
				if !ok || info.ObjectOf(id) != p {
					return true
				}
				// comma-ok assertions are safe
				if pas, ok := c.Parent(ta).(*ast.AssignStmt); ok && len(pas.Lhs) == 2 && len(pas.Rhs) == 1 {
					return true
				}
				asserted := info.TypeOf(ta.Type)
				match := false
				for _, gt := range goTypes {
					if types.Identical(asserted, gt) {
						match = true
					}
				}
				if !match {
					problems = append(problems, fmt.Sprintf("operand %s is registered as %s but asserted to be %s", id.Name, tn[i], nodeStr(c.Fset, ta.Type)))
				}
				return true
			})
		}
		if len(problems) == 0 {
			c.OK(key, r.call.Pos(), "every assertion on an operand matches the type id it is registered for")
		} else {
			c.Violation(key, r.call.Pos(), "%s: the implementation panics (nil/wrong type assertion) for exactly the operand types it was registered for", strings.Join(problems, "; "))
		}
	}
	if n < 50 {
		c.Undecided("value#registrations", token.NoPos, "only %d registrations found", n)
	}
}

// ---------------------------------------------------------------------------
// R14.1 symmetry of the = and < matrices

var paramRe = regexp.MustCompile(`\b(a|b)\b`)

func ruleR141(c *Ctx) {
	regs := c.registrations()
	for _, owner := range []string{"Equal", "Less"} {
		type cell struct {
			left, right string // operand expressions, parameter name normalised to x
			op          token.Token
			r           registration
		}
		cells := map[[2]string]cell{}
		undecided := ""
		for _, r := range regs {
			if r.owner != owner || len(r.types) != 2 || !strings.HasSuffix(r.pkg.PkgPath, "/value") {
				continue
			}
			info := r.pkg.TypesInfo
			var params []types.Object
			for _, f := range r.lit.Type.Params.List {
				for _, nm := range f.Names {
					params = append(params, info.Defs[nm])
				}
			}
			pa, pb := params[len(params)-2], params[len(params)-1]
			// the one comparison of the body
			var cmp *ast.BinaryExpr
			ast.Inspect(r.lit.Body, func(x ast.Node) bool {
				if be, ok := x.(*ast.BinaryExpr); ok {
					switch be.Op {
					case token.EQL, token.NEQ, token.LSS, token.GTR, token.LEQ, token.GEQ:
						if cmp == nil {
							cmp = be
						}
					}
				}
				return true
			})
			pair := [2]string{nodeStr(c.Fset, r.types[0]), nodeStr(c.Fset, r.types[1])}
			if cmp == nil && r.bind != nil {
				// the cell hands its (converted) operands to a function bound at the helper's call site:
				// n.floats(Float(a.(Int)), b.(Float)) with floats: func(a, b Float) Value { return Bool(a < b) }
				var hand *ast.CallExpr
				var inner *ast.FuncLit
				ast.Inspect(r.lit.Body, func(x ast.Node) bool {
					cc, ok := x.(*ast.CallExpr)
					if !ok || hand != nil {
						return true
					}
					var obj types.Object
					switch f := ast.Unparen(cc.Fun).(type) {
					case *ast.SelectorExpr:
						if fs, ok := info.Selections[f]; ok {
							obj = fs.Obj()
						}
					case *ast.Ident:
						obj = info.ObjectOf(f)
					}
					if l, ok := r.bind[obj]; ok {
						hand, inner = cc, l
					}
					return true
				})
				if hand != nil {
					var ip []types.Object
					for _, f := range inner.Type.Params.List {
						for _, nm := range f.Names {
							ip = append(ip, info.Defs[nm])
						}
					}
					var icmp *ast.BinaryExpr
					ast.Inspect(inner.Body, func(x ast.Node) bool {
						if be, ok := x.(*ast.BinaryExpr); ok && icmp == nil {
							switch be.Op {
							case token.EQL, token.NEQ, token.LSS, token.GTR, token.LEQ, token.GEQ:
								icmp = be
							}
						}
						return true
					})
					if icmp != nil && len(ip) >= 2 && len(hand.Args) == len(ip) {
						idx := func(e ast.Expr) int {
							if id, ok := ast.Unparen(e).(*ast.Ident); ok {
								for i, p := range ip {
									if info.ObjectOf(id) == p {
										return i
									}
								}
							}
							return -1
						}
						li, ri := idx(icmp.X), idx(icmp.Y)
						if li >= 0 && ri >= 0 {
							cmp = &ast.BinaryExpr{X: hand.Args[li], OpPos: icmp.OpPos, Op: icmp.Op, Y: hand.Args[ri]}
						} else {
							// the operands are handed on as they are (cmp(a, b)): the bound function is the cell
							ia, ib := -1, -1
							for i, ha := range hand.Args {
								if id, ok := ast.Unparen(ha).(*ast.Ident); ok {
									switch info.ObjectOf(id) {
									case pa:
										ia = i
									case pb:
										ib = i
									}
								}
							}
							if ia >= 0 && ib >= 0 {
								cmp, pa, pb = icmp, ip[ia], ip[ib]
							}
						}
					}
				}
			}
			if cmp == nil {
				undecided = fmt.Sprintf("the cell (%s,%s) contains no comparison (it delegates to a helper)", pair[0], pair[1])
				continue
			}
			// operands kept in locals: af, _ := a.ToFloat(); bf, _ := b.ToFloat(); af < bf
			resolveLocal := func(e ast.Expr) ast.Expr {
				if id, ok := ast.Unparen(e).(*ast.Ident); ok {
					if v, ok := info.ObjectOf(id).(*types.Var); ok && v != pa && v != pb {
						if rhs, ok := singleDefExpr[v]; ok {
							return rhs
						}
						// first result of a multi value call
						if as, i := definingAssign(info, r.lit, v); as != nil && i == 0 && len(as.Rhs) == 1 {
							return as.Rhs[0]
						}
					}
				}
				return e
			}
			cmp = &ast.BinaryExpr{X: resolveLocal(cmp.X), OpPos: cmp.OpPos, Op: cmp.Op, Y: resolveLocal(cmp.Y)}
			// exactness: the cell for two integers compares integers. A conversion to a floating point type on the way
			// makes different integers above 2^53 compare as equal / unordered.
			if pair[0] == pair[1] && strings.HasPrefix(pair[0], "Int") {
				viaFloat := func(e ast.Expr) bool {
					return containsNode(e, func(y ast.Node) bool {
						call, ok := y.(*ast.CallExpr)
						if !ok {
							return false
						}
						if tv, ok := info.Types[call.Fun]; ok && tv.IsType() {
							if b, ok := tv.Type.Underlying().(*types.Basic); ok && b.Info()&types.IsFloat != 0 {
								return true
							}
						}
						if sel, ok := ast.Unparen(call.Fun).(*ast.SelectorExpr); ok && sel.Sel.Name == "ToFloat" {
							return true
						}
						return false
					})
				}
				if viaFloat(cmp.X) || viaFloat(cmp.Y) {
					key := fmt.Sprintf("value.%s#cell(%s,%s)#exact", owner, pair[0], pair[1])
					c.Violation(key, cmp.Pos(), "the cell for two integers compares them through a floating point conversion (%s): integers above 2^53 that differ are rounded to the same float64, so min/max/order and < treat them as equal or unordered", nodeStr(c.Fset, cmp))
				}
			}
			norm := func(e ast.Expr, p types.Object, other types.Object) (string, bool) {
				if !mentions(info, e, p) || mentions(info, e, other) {
					return "", false
				}
				re := paramRe
				if p.Name() != "a" && p.Name() != "b" {
					re = regexp.MustCompile(`\b` + regexp.QuoteMeta(p.Name()) + `\b`)
				}
				return re.ReplaceAllString(nodeStr(c.Fset, e), "x"), true
			}
			l, ok1 := norm(cmp.X, pa, pb)
			rr, ok2 := norm(cmp.Y, pb, pa)
			if !ok1 || !ok2 {
				key := fmt.Sprintf("value.%s#cell(%s,%s)", owner, pair[0], pair[1])
				c.Violation(key, cmp.Pos(), "the comparison %s does not have the first operand on the left and the second on the right: the cell computes the relation for swapped operands", nodeStr(c.Fset, cmp))
				continue
			}
			cells[pair] = cell{l, rr, cmp.Op, r}
		}
		if undecided != "" {
			c.Undecided("value."+owner+"#matrix", token.NoPos, "%s", undecided)
			continue
		}
		if len(cells) < 4 {
			c.Undecided("value."+owner+"#matrix", token.NoPos, "only %d cells found", len(cells))
			continue
		}
		wantOp := token.EQL
		if owner == "Less" {
			wantOp = token.LSS
		}
		for pair, ce := range cells {
			key := fmt.Sprintf("value.%s#cell(%s,%s)", owner, pair[0], pair[1])
			if ce.op != wantOp {
				c.Violation(key, regPos(ce.r), "the cell of the %s matrix uses the Go operator %s", owner, ce.op)
				continue
			}
			if pair[0] == pair[1] {
				c.Check(ce.left == ce.right, key, regPos(ce.r), "both operands are converted alike", fmt.Sprintf("the operands of a same-type cell are converted differently (%s vs %s)", ce.left, ce.right))
				continue
			}
			mir, ok := cells[[2]string{pair[1], pair[0]}]
			if !ok {
				c.Violation(key, regPos(ce.r), "the %s matrix has a cell for (%s,%s) but none for (%s,%s): the operator works in one operand order only (it is not symmetric / a>b is not b<a)", owner, pair[0], pair[1], pair[1], pair[0])
				continue
			}
			if ce.left == mir.right && ce.right == mir.left {
				c.OK(key, regPos(ce.r), "mirror image of the cell (%s,%s): each operand type is converted the same way on either side", pair[1], pair[0])
			} else {
				c.Violation(key, regPos(ce.r), "the cells (%s,%s) and (%s,%s) are no mirror images: %s is converted as %s in one and as %s in the other: x=y and y=x (resp. x<y and y>x) can differ", pair[0], pair[1], pair[1], pair[0], pair[0], ce.left, mir.right)
			}
		}
	}
}

// ---------------------------------------------------------------------------
// R14.2 derived operators route through the = and < objects in the right operand order

func ruleR142(c *Ctx) {
	vp := c.Pkg("value")
	if vp == nil {
		c.Undecided("package value", token.NoPos, "not found")
		return
	}
	info := vp.TypesInfo
	newDecl := c.FuncDecl(vp, "", "New")
	if newDecl == nil {
		c.Undecided("value.New", token.NoPos, "not found")
		return
	}
	// the objects registered for "=" and "<"
	roleOf := map[types.Object]string{}
	ast.Inspect(newDecl.Body, func(x ast.Node) bool {
		call, ok := x.(*ast.CallExpr)
		if !ok || len(call.Args) < 3 {
			return true
		}
		sel, ok := ast.Unparen(call.Fun).(*ast.SelectorExpr)
		if !ok || !strings.HasPrefix(sel.Sel.Name, "AddOp") {
			return true
		}
		tv := info.Types[call.Args[0]]
		if tv.Value == nil || tv.Value.Kind() != constant.String {
			return true
		}
		if id, ok := ast.Unparen(call.Args[2]).(*ast.Ident); ok {
			switch constant.StringVal(tv.Value) {
			case "=":
				roleOf[info.ObjectOf(id)] = "eq"
			case "<":
				roleOf[info.ObjectOf(id)] = "less"
			}
		}
		return true
	})
	if len(roleOf) != 2 {
		c.Undecided("value.New#equal-less-objects", newDecl.Pos(), "the objects registered for = and < are not local variables any more")
		return
	}
	type callInfo struct {
		role, order string
		call        *ast.CallExpr
	}
	want := map[string][]string{
		"!=": {"eq:ab"},
		">":  {"less:ba"},
		"<=": {"less:ab", "eq:*"},
		">=": {"less:ba", "eq:*"},
	}
	found := map[string]bool{}
	ast.Inspect(newDecl.Body, func(x ast.Node) bool {
		call, ok := x.(*ast.CallExpr)
		if !ok || len(call.Args) < 3 {
			return true
		}
		sel, ok := ast.Unparen(call.Fun).(*ast.SelectorExpr)
		if !ok || !strings.HasPrefix(sel.Sel.Name, "AddOp") {
			return true
		}
		tv := info.Types[call.Args[0]]
		if tv.Value == nil || tv.Value.Kind() != constant.String {
			return true
		}
		op := constant.StringVal(tv.Value)
		w, isDerived := want[op]
		if !isDerived {
			return true
		}
		found[op] = true
		key := fmt.Sprintf("value.New#derived-operator %q", op)
		lit, ok := ast.Unparen(call.Args[2]).(*ast.FuncLit)
		// roles and constants bound by a constructor of the implementation: lessOrEqual(less, equal, true)
		localRole := map[types.Object]string{}
		constBool := map[types.Object]bool{}
		if !ok {
			if hc, isCall := ast.Unparen(call.Args[2]).(*ast.CallExpr); isCall {
				if cal := Callee(info, hc); cal != nil && cal.Pkg() == vp.Types {
					if hd := findFuncDecl(vp, cal); hd != nil && hd.Body != nil {
						var ret *ast.ReturnStmt
						nRet := 0
						inspectNoLit(hd.Body, func(y ast.Node) bool {
							if r, ok := y.(*ast.ReturnStmt); ok && len(r.Results) == 1 {
								ret = r
								nRet++
							}
							return true
						})
						if nRet == 1 {
							if l2, isLit := ast.Unparen(ret.Results[0]).(*ast.FuncLit); isLit {
								lit, ok = l2, true
								i := 0
								for _, f := range hd.Type.Params.List {
									for _, nm := range f.Names {
										if i < len(hc.Args) {
											arg := ast.Unparen(hc.Args[i])
											if id, isID := arg.(*ast.Ident); isID {
												if r := roleOf[info.ObjectOf(id)]; r != "" {
													localRole[info.Defs[nm]] = r
												}
											}
											if tv := info.Types[arg]; tv.Value != nil && tv.Value.Kind() == constant.Bool {
												constBool[info.Defs[nm]] = constant.BoolVal(tv.Value)
											}
										}
										i++
									}
								}
							}
						}
					}
				}
			}
		}
		if !ok {
			c.Undecided(key, call.Pos(), "implementation is neither a function literal nor the result of a constructor that returns one")
			return true
		}
		var params []types.Object
		for _, f := range lit.Type.Params.List {
			for _, nm := range f.Names {
				params = append(params, info.Defs[nm])
			}
		}
		pa, pb := params[len(params)-2], params[len(params)-1]
		// operand aliases: x, y := a, b; if swap { x, y = b, a }  (swap a constant of the constructor call)
		alias := map[types.Object]string{pa: "a", pb: "b"}
		resolve := func(e ast.Expr) string {
			if id, ok := ast.Unparen(e).(*ast.Ident); ok {
				return alias[info.ObjectOf(id)]
			}
			return ""
		}
		var calls []callInfo
		collect := func(n ast.Node) {
			ast.Inspect(n, func(y ast.Node) bool {
				cc, ok := y.(*ast.CallExpr)
				if !ok {
					return true
				}
				// a helper of the package that forwards to Calc of the operator it is given: calcBool(less, st, a, b)
				if hcal := Callee(info, cc); hcal != nil && hcal.Pkg() != nil {
					if hp := c.Pkgs[hcal.Pkg().Path()]; hp != nil && hp.TypesInfo == info {
						if hd := findFuncDecl(hp, hcal); hd != nil && hd.Body != nil && hd.Recv == nil && hd.Type.Params != nil {
							var hps []types.Object
							for _, fl := range hd.Type.Params.List {
								for _, nm := range fl.Names {
									hps = append(hps, info.Defs[nm])
								}
							}
							idxOf := func(e ast.Expr) int {
								if id, ok := ast.Unparen(e).(*ast.Ident); ok {
									for i, hpo := range hps {
										if info.ObjectOf(id) == hpo {
											return i
										}
									}
								}
								return -1
							}
							var inner *ast.CallExpr
							nInner := 0
							ast.Inspect(hd.Body, func(z ast.Node) bool {
								ic, ok := z.(*ast.CallExpr)
								if !ok || len(ic.Args) != 3 {
									return true
								}
								if is, ok := ast.Unparen(ic.Fun).(*ast.SelectorExpr); ok && is.Sel.Name == "Calc" && idxOf(is.X) >= 0 {
									inner = ic
									nInner++
								}
								return true
							})
							if nInner == 1 && len(hps) == len(cc.Args) {
								ri := idxOf(ast.Unparen(inner.Fun).(*ast.SelectorExpr).X)
								xi, yi := idxOf(inner.Args[1]), idxOf(inner.Args[2])
								if ri >= 0 && xi >= 0 && yi >= 0 {
									if rid, ok := ast.Unparen(cc.Args[ri]).(*ast.Ident); ok {
										role := roleOf[info.ObjectOf(rid)]
										if role == "" {
											role = localRole[info.ObjectOf(rid)]
										}
										if role == "" {
											role = "other(" + rid.Name + ")"
										}
										order := "?"
										if o := resolve(cc.Args[xi]) + resolve(cc.Args[yi]); o == "ab" || o == "ba" {
											order = o
										}
										calls = append(calls, callInfo{role, order, cc})
										return true
									}
								}
							}
						}
					}
				}
				s2, ok := ast.Unparen(cc.Fun).(*ast.SelectorExpr)
				if !ok || s2.Sel.Name != "Calc" || len(cc.Args) != 3 {
					return true
				}
				id, ok := ast.Unparen(s2.X).(*ast.Ident)
				if !ok {
					return true
				}
				role := roleOf[info.ObjectOf(id)]
				if role == "" {
					role = localRole[info.ObjectOf(id)]
				}
				if role == "" {
					role = "other(" + id.Name + ")"
				}
				order := "?"
				if o := resolve(cc.Args[1]) + resolve(cc.Args[2]); o == "ab" || o == "ba" {
					order = o
				}
				calls = append(calls, callInfo{role, order, cc})
				return true
			})
		}
		assign := func(as *ast.AssignStmt) {
			if len(as.Lhs) != len(as.Rhs) {
				return
			}
			vals := make([]string, len(as.Rhs))
			for i, r := range as.Rhs {
				vals[i] = resolve(r)
			}
			for i, l := range as.Lhs {
				if id, ok := ast.Unparen(l).(*ast.Ident); ok && id.Name != "_" {
					if vals[i] != "" {
						alias[info.ObjectOf(id)] = vals[i]
					} else if _, had := alias[info.ObjectOf(id)]; had && info.ObjectOf(id) != pa && info.ObjectOf(id) != pb {
						delete(alias, info.ObjectOf(id))
					}
				}
			}
		}
		var walk func(stmts []ast.Stmt)
		walk = func(stmts []ast.Stmt) {
			for _, st := range stmts {
				switch t := st.(type) {
				case *ast.AssignStmt:
					collect(t)
					assign(t)
				case *ast.IfStmt:
					// a condition that is a constant of the constructor call selects one branch
					cond := ast.Unparen(t.Cond)
					neg := false
					if u, ok := cond.(*ast.UnaryExpr); ok && u.Op == token.NOT {
						neg, cond = true, ast.Unparen(u.X)
					}
					if id, ok := cond.(*ast.Ident); ok && t.Init == nil {
						if v, known := constBool[info.ObjectOf(id)]; known {
							if v != neg {
								walk(t.Body.List)
							} else if eb, ok := t.Else.(*ast.BlockStmt); ok {
								walk(eb.List)
							}
							continue
						}
					}
					collect(t)
				default:
					collect(st)
				}
			}
		}
		walk(lit.Body.List)
		var got []string
		for _, ci := range calls {
			got = append(got, ci.role+":"+ci.order)
		}
		okAll := len(got) == len(w)
		if okAll {
			for i := range w {
				r, o, _ := strings.Cut(w[i], ":")
				gr, gord, _ := strings.Cut(got[i], ":")
				if r != gr || (o != "*" && o != gord) || gord == "?" {
					okAll = false
				}
			}
		}
		// order of evaluation: the first call dominates the second
		if okAll && len(calls) == 2 {
			g := c.CFG(lit)
			if !g.Dominates(calls[0].call, calls[1].call) {
				okAll = false
			}
		}
		// != negates
		if okAll && op == "!=" {
			neg := containsNode(lit.Body, func(y ast.Node) bool {
				u, ok := y.(*ast.UnaryExpr)
				return ok && u.Op == token.NOT
			})
			if !neg {
				okAll = false
				got = append(got, "(result not negated)")
			}
		}
		if okAll {
			c.OK(key, call.Pos(), "%s is computed as %s", op, strings.Join(got, ", then "))
		} else {
			c.Violation(key, call.Pos(), "%s has to be computed as [%s] (ordering first, so that incomparable operands fail; operand order as given), but its implementation calls [%s]: the derived operators are no longer mutually consistent (a>b is b<a, a<=b iff a<b or a=b, a>=b is b<=a, a!=b is not a=b)", op, strings.Join(w, ", "), strings.Join(got, ", "))
		}
		return true
	})
	for op := range want {
		if !found[op] {
			c.Undecided(fmt.Sprintf("value.New#derived-operator %q", op), newDecl.Pos(), "registration not found")
		}
	}
}

// ---------------------------------------------------------------------------
// R14.4 one equality, one ordering; no Go == on values

func ruleR144(c *Ctx) {
	vp := c.Pkg("value")
	if vp == nil {
		c.Undecided("package value", token.NoPos, "not found")
		return
	}
	info := vp.TypesInfo
	// (a) Equal: fg.equal / SetIsEqual get a function that calls Calc of the object Equal returns; elements are compared by that object too
	for _, name := range []string{"Equal", "Less"} {
		fd := c.FuncDecl(vp, "", name)
		key := "value." + name + "#wiring"
		if fd == nil {
			c.Undecided(key, token.NoPos, "not found")
			continue
		}
		// the returned object
		var ret types.Object
		inspectNoLit(fd.Body, func(x ast.Node) bool {
			if r, ok := x.(*ast.ReturnStmt); ok && len(r.Results) == 1 {
				if id, ok := ast.Unparen(r.Results[0]).(*ast.Ident); ok {
					ret = info.ObjectOf(id)
				}
			}
			return true
		})
		if ret == nil {
			c.Undecided(key, fd.Pos(), "returned operator object is not a variable")
			continue
		}
		callsRet := func(e ast.Node) bool {
			return containsNodeDeep(e, func(y ast.Node) bool {
				cc, ok := y.(*ast.CallExpr)
				if !ok {
					return false
				}
				// a helper of the package that is handed the operator object and calls Calc of that parameter
				if hcal := Callee(info, cc); hcal != nil && hcal.Pkg() == vp.Types {
					if hd := findFuncDecl(vp, hcal); hd != nil && hd.Body != nil && hd.Type.Params != nil {
						pi := 0
						for _, fl := range hd.Type.Params.List {
							for _, nm := range fl.Names {
								if pi < len(cc.Args) {
									if aid, ok := ast.Unparen(cc.Args[pi]).(*ast.Ident); ok && info.ObjectOf(aid) == ret {
										pobj := info.Defs[nm]
										if containsNodeDeep(hd.Body, func(z ast.Node) bool {
											ic, ok := z.(*ast.CallExpr)
											if !ok {
												return false
											}
											is, ok := ast.Unparen(ic.Fun).(*ast.SelectorExpr)
											if !ok || is.Sel.Name != "Calc" {
												return false
											}
											iid, ok := ast.Unparen(is.X).(*ast.Ident)
											return ok && info.ObjectOf(iid) == pobj
										}) {
											return true
										}
									}
								}
								pi++
							}
						}
					}
				}
				s2, ok := ast.Unparen(cc.Fun).(*ast.SelectorExpr)
				if !ok || s2.Sel.Name != "Calc" {
					return false
				}
				id, ok := ast.Unparen(s2.X).(*ast.Ident)
				return ok && info.ObjectOf(id) == ret
			})
		}
		resolve := func(e ast.Expr) ast.Node {
			if id, ok := ast.Unparen(e).(*ast.Ident); ok {
				if as, i := definingAssign(info, fd, info.ObjectOf(id)); as != nil && len(as.Rhs) == len(as.Lhs) {
					return as.Rhs[i]
				}
			}
			return e
		}
		nWired, bad := 0, ""
		ast.Inspect(fd.Body, func(x ast.Node) bool {
			switch t := x.(type) {
			case *ast.AssignStmt:
				for i, l := range t.Lhs {
					sel, ok := ast.Unparen(l).(*ast.SelectorExpr)
					if !ok || len(t.Rhs) != len(t.Lhs) {
						continue
					}
					if sel.Sel.Name == "equal" || sel.Sel.Name == "less" || sel.Sel.Name == "ef" {
						nWired++
						// a method value of the operator object: deepEqual.ef = deepEqual.itemsEqual - the method has to call
						// Calc of its receiver
						viaMethod := false
						if ms, ok := ast.Unparen(t.Rhs[i]).(*ast.SelectorExpr); ok {
							if msel, ok := info.Selections[ms]; ok && msel.Kind() == types.MethodVal {
								if rid, ok := ast.Unparen(ms.X).(*ast.Ident); ok && info.ObjectOf(rid) == ret {
									if mfn, ok := msel.Obj().(*types.Func); ok {
										if md := findFuncDecl(vp, mfn); md != nil && md.Body != nil && md.Recv != nil && len(md.Recv.List[0].Names) == 1 {
											robj := info.Defs[md.Recv.List[0].Names[0]]
											viaMethod = containsNodeDeep(md.Body, func(y ast.Node) bool {
												cc, ok := y.(*ast.CallExpr)
												if !ok {
													return false
												}
												s2, ok := ast.Unparen(cc.Fun).(*ast.SelectorExpr)
												if !ok || s2.Sel.Name != "Calc" {
													return false
												}
												id, ok := ast.Unparen(s2.X).(*ast.Ident)
												return ok && info.ObjectOf(id) == robj
											})
										}
									}
								}
							}
						}
						// a constructor of the package that wraps the operator object it is given: checkedBoolFunc(m)
						if hc, ok := ast.Unparen(t.Rhs[i]).(*ast.CallExpr); ok && !viaMethod {
							if hcal := Callee(info, hc); hcal != nil && hcal.Pkg() == vp.Types {
								if hd := findFuncDecl(vp, hcal); hd != nil && hd.Body != nil && hd.Type.Params != nil {
									pi := 0
									for _, fl := range hd.Type.Params.List {
										for _, nm := range fl.Names {
											if pi < len(hc.Args) {
												if aid, ok := ast.Unparen(hc.Args[pi]).(*ast.Ident); ok && info.ObjectOf(aid) == ret {
													pobj := info.Defs[nm]
													if containsNodeDeep(hd.Body, func(y ast.Node) bool {
														cc, ok := y.(*ast.CallExpr)
														if !ok {
															return false
														}
														s2, ok := ast.Unparen(cc.Fun).(*ast.SelectorExpr)
														if !ok || s2.Sel.Name != "Calc" {
															return false
														}
														id, ok := ast.Unparen(s2.X).(*ast.Ident)
														return ok && info.ObjectOf(id) == pobj
													}) {
														viaMethod = true
													}
												}
											}
											pi++
										}
									}
								}
							}
						}
						if !viaMethod && !callsRet(resolve(t.Rhs[i])) {
							bad = fmt.Sprintf("%s is set to a function that does not call Calc of the operator object %s", nodeStr(c.Fset, l), ret.Name())
						}
					}
				}
			case *ast.CallExpr:
				if sel, ok := ast.Unparen(t.Fun).(*ast.SelectorExpr); ok && sel.Sel.Name == "SetIsEqual" && len(t.Args) == 1 {
					nWired++
					if !callsRet(resolve(t.Args[0])) {
						bad = "SetIsEqual gets a function that does not call Calc of the operator object " + ret.Name()
					}
				}
			case *ast.CompositeLit:
				for _, el := range t.Elts {
					if kv, ok := el.(*ast.KeyValueExpr); ok {
						if k, ok := kv.Key.(*ast.Ident); ok && k.Name == "ef" {
							nWired++
							if !callsRet(resolve(kv.Value)) {
								bad = "the element comparator ef does not call Calc of the operator object " + ret.Name() + " (nested lists/maps are then compared by the scalar matrix)"
							}
						}
					}
				}
			}
			return true
		})
		if nWired == 0 {
			c.Undecided(key, fd.Pos(), "no wiring of the comparison function found")
		} else if bad != "" {
			c.Violation(key, fd.Pos(), "%s: switch, ~, groupByEqual, min/max/order then use another relation than the operator", bad)
		} else {
			c.OK(key, fd.Pos(), "%d consumers of the relation (generator, built-ins, element comparison) call Calc of the very object registered as the operator", nWired)
		}
	}
	// (b) no Go == between two language values
	n := 0
	forEachFuncBody(evalPkgs(c), func(pkg *packages.Package, fn ast.Node, body *ast.BlockStmt) {
		pinfo := pkg.TypesInfo
		inspectNoLit(body, func(x ast.Node) bool {
			be, ok := x.(*ast.BinaryExpr)
			if !ok || (be.Op != token.EQL && be.Op != token.NEQ) {
				return true
			}
			isVal := func(e ast.Expr) bool {
				t := pinfo.TypeOf(e)
				if t == nil {
					return false
				}
				if tv := pinfo.Types[e]; tv.IsNil() {
					return false
				}
				return isNamed(t, modPath+"/value", "Value")
			}
			if isVal(be.X) && isVal(be.Y) {
				n++
				c.Violation(fmt.Sprintf("%s#go-equality[%d]", c.FuncName(fn)+litSuffix(c, fn), n), be.Pos(), "two values of the language are compared with the Go operator %s (%s): that is identity/representation equality (and panics for maps held in uncomparable storages), not the = of the language", be.Op, nodeStr(c.Fset, be))
			}
			return true
		})
	})
	if n == 0 {
		c.OK("value#no-go-equality-on-values", token.NoPos, "no == / != between two operands of type value.Value in evaluation code")
	}
}

// ---------------------------------------------------------------------------
// R14.7 container equality compares sizes unconditionally

func ruleR147(c *Ctx) {
	vp := c.Pkg("value")
	if vp == nil {
		c.Undecided("package value", token.NoPos, "not found")
		return
	}
	info := vp.TypesInfo
	for _, recv := range []string{"List", "Map"} {
		fd := c.FuncDecl(vp, recv, "Equals")
		key := "value." + recv + ".Equals#size-test"
		if fd == nil {
			c.Undecided(key, token.NoPos, "not found")
			continue
		}
		g := c.CFG(fd)
		ok, nRet := true, 0
		inspectNoLit(fd.Body, func(x ast.Node) bool {
			r, isRet := x.(*ast.ReturnStmt)
			if !isRet || len(r.Results) != 2 {
				return true
			}
			// returns that can report 'equal'
			if tv := info.Types[r.Results[0]]; tv.Value != nil && !constant.BoolVal(tv.Value) {
				return true
			}
			nRet++
			sized := false
			for _, gd := range g.Guards(r) {
				be, isBe := ast.Unparen(gd.Cond).(*ast.BinaryExpr)
				if !isBe {
					continue
				}
				txt := nodeStr(c.Fset, be)
				if (be.Op == token.NEQ && !gd.Val || be.Op == token.EQL && gd.Val) && (strings.Contains(txt, "len(") || strings.Contains(txt, "Size()")) {
					sized = true
				}
			}
			if !sized {
				ok = false
			}
			return true
		})
		if nRet == 0 {
			c.Undecided(key, fd.Pos(), "no return that can report equality")
			continue
		}
		c.Check(ok, key, fd.Pos(), recv+".Equals can report equality only after the two sizes were compared and found equal", recv+".Equals can report 'equal' on a path where the sizes were not compared: a container that is a proper prefix/subset of the other compares equal, and = is no longer symmetric")
	}
}

// regPos: where a registration is written in its owner (the call of the registration helper, if any).
func regPos(r registration) token.Pos {
	if r.site != nil {
		return r.site.Pos()
	}
	return r.call.Pos()
}

// ---------------------------------------------------------------------------
// R14.8 searches decide by the equality function alone.
//
// Membership (~), containsAll, switch and the grouping built-ins look for an
// element that is *equal* to a given value, where equal is the registered
// equality of the language (a funcGen.BoolFunc). In the loop that compares the
// candidates, no path may move on to the next candidate without having asked
// the equality function: a pre-filter ("different type, cannot be equal")
// makes the search disagree with `=`, for which 1 = 1.0 holds and 1 = "a" is
// an error.

func ruleR148(c *Ctx) {
	vp := c.Pkg("value")
	if vp == nil {
		c.Undecided("package value", token.NoPos, "not found")
		return
	}
	info := vp.TypesInfo
	// the equality of the language: the BoolFunc field that the constructor of the = matrix (Equal) fills
	var eqField types.Object
	if fd := c.FuncDecl(vp, "", "Equal"); fd != nil {
		ast.Inspect(fd.Body, func(x ast.Node) bool {
			as, ok := x.(*ast.AssignStmt)
			if !ok || len(as.Lhs) != 1 {
				return true
			}
			if sel, ok := ast.Unparen(as.Lhs[0]).(*ast.SelectorExpr); ok && isNamed(info.TypeOf(sel), modPath+"/funcGen", "BoolFunc") {
				if fs, ok := info.Selections[sel]; ok && fs.Kind() == types.FieldVal {
					eqField = fs.Obj()
				}
			}
			return true
		})
	}
	if eqField == nil {
		c.Undecided("value.Equal#equality-field", token.NoPos, "the field that holds the equality function of the language was not found")
		return
	}
	n := 0
	forEachFuncBody([]*packages.Package{vp}, func(pkg *packages.Package, fn ast.Node, body *ast.BlockStmt) {
		g := c.CFG(fn)
		if g == nil {
			return
		}
		k := 0
		inspectNoLit(body, func(x ast.Node) bool {
			call, ok := x.(*ast.CallExpr)
			if !ok || len(call.Args) < 3 {
				return true
			}
			fsel, ok := ast.Unparen(call.Fun).(*ast.SelectorExpr)
			if !ok {
				return true
			}
			if fs, ok := info.Selections[fsel]; !ok || fs.Obj() != eqField {
				return true
			}
			// the innermost enclosing range loop
			var loop *ast.RangeStmt
			for q := c.Parent(call); q != nil && q != fn; q = c.Parent(q) {
				if rs, ok := q.(*ast.RangeStmt); ok {
					loop = rs
					break
				}
				if _, ok := q.(*ast.ForStmt); ok {
					break
				}
				if _, ok := q.(*ast.FuncLit); ok {
					break
				}
			}
			if loop == nil {
				return true
			}
			n++
			k++
			key := fmt.Sprintf("%s#search-by-equality[%d]", c.FuncName(fn)+litSuffix(c, fn), k)
			bodyBlk, loopBlk, _ := g.RangeBlocks(loop)
			if bodyBlk == nil || loopBlk == nil {
				c.Undecided(key, loop.Pos(), "loop not found in the control flow graph")
				return true
			}
			asks := func(y ast.Node) bool {
				return containsNode(y, func(z ast.Node) bool { return z == ast.Node(call) })
			}
			skipped := g.PathEdgesFrom(bodyBlk, func(b *cfg.Block) bool { return b == loopBlk }, asks, nil)
			if skipped {
				c.Violation(key, loop.Pos(), "the loop that looks for an equal element can move on to the next candidate without calling the equality function %s: a candidate is rejected by some other test (its type, its kind), so the search disagrees with `=` (1 ~ [1.0] is false although 1 = 1.0; 1 ~ [\"a\"] is false although 1 = \"a\" is an error)", nodeStr(c.Fset, call.Fun))
			} else {
				c.OK(key, loop.Pos(), "every candidate of the loop is handed to the equality function before the loop moves on")
			}
			return true
		})
	})
	if n < 2 {
		c.Undecided("value#searches-by-equality", token.NoPos, "only %d loops that compare candidates with the equality function found", n)
	}
}

// namedCellLit presents a declared function as a function literal (sharing type and body), so that the cell
// analyses, which look at literals, apply to named cells as well. One literal per declaration.
var namedCellLits = map[*ast.FuncDecl]*ast.FuncLit{}

func namedCellLit(fd *ast.FuncDecl) *ast.FuncLit {
	if l, ok := namedCellLits[fd]; ok {
		return l
	}
	l := &ast.FuncLit{Type: fd.Type, Body: fd.Body}
	namedCellLits[fd] = l
	return l
}

// ---------------------------------------------------------------------------
// R14.9 comparison cells convert no float to an integer without a range check
//
// A float that is larger than every int64 (1e19, +Inf) or is NaN has no
// integer value; Go leaves the result of the conversion to the hardware (amd64
// yields MinInt64 for all of them). A cell of the = or < matrix that compares
// "exactly" by converting the float operand to an integer therefore orders
// +Inf below every int, while the float/float cell orders it above: < is no
// longer asymmetric and transitive across the number types. The conversion is
// sound only under a test that bounds the operand from both sides.

func ruleR149(c *Ctx) {
	regs := c.registrations()
	n := 0
	seen := map[ast.Node]bool{}
	for _, r := range regs {
		if (r.owner != "Equal" && r.owner != "Less") || !strings.HasSuffix(r.pkg.PkgPath, "/value") || r.lit == nil {
			continue
		}
		pkg := r.pkg
		info := pkg.TypesInfo
		// the cell and the functions of the package it calls (two levels)
		bodies := []ast.Node{r.lit}
		for _, bl := range r.bind {
			if bl != nil {
				bodies = append(bodies, bl)
			}
		}
		sort.Slice(bodies, func(i, j int) bool { return bodies[i].Pos() < bodies[j].Pos() })
		n++
		for depth := 0; depth < 2; depth++ {
			var next []ast.Node
			for _, b := range bodies {
				ast.Inspect(b, func(x ast.Node) bool {
					if call, ok := x.(*ast.CallExpr); ok {
						if cal := Callee(info, call); cal != nil && cal.Pkg() == pkg.Types {
							if fd := findFuncDecl(pkg, cal); fd != nil && fd.Body != nil {
								dup := false
								for _, o := range append(bodies, next...) {
									if o == ast.Node(fd) {
										dup = true
									}
								}
								if !dup {
									next = append(next, fd)
								}
							}
						}
					}
					return true
				})
			}
			bodies = append(bodies, next...)
		}
		for _, b := range bodies {
			if seen[b] {
				continue
			}
			seen[b] = true
			var tids []string
			for _, t := range r.types {
				tids = append(tids, nodeStr(c.Fset, t))
			}
			where := fmt.Sprintf("value.%s[%s]", r.owner, strings.Join(tids, ","))
			if fd, ok := b.(*ast.FuncDecl); ok {
				where = declName(pkg, fd)
			}
			k := 0
			clean := true
			ast.Inspect(b, func(x ast.Node) bool {
				call, ok := x.(*ast.CallExpr)
				if !ok || len(call.Args) != 1 {
					return true
				}
				tv, ok := info.Types[call.Fun]
				if !ok || !tv.IsType() {
					return true
				}
				to, ok1 := tv.Type.Underlying().(*types.Basic)
				from, ok2 := info.TypeOf(call.Args[0]).Underlying().(*types.Basic)
				if !ok1 || !ok2 || to.Info()&types.IsInteger == 0 || from.Info()&types.IsFloat == 0 {
					return true
				}
				if av := info.Types[call.Args[0]]; av.Value != nil {
					return true // a constant: checked by the compiler
				}
				k++
				key := fmt.Sprintf("%s#float-to-int[%d]", where, k)
				operand := nodeStr(c.Fset, ast.Unparen(call.Args[0]))
				lower, upper := false, false
				for _, gd := range c.GuardsDeep(call) {
					if gd.Synth {
						continue
					}
					cond := ast.Unparen(gd.Cond)
					if be, ok := cond.(*ast.BinaryExpr); ok {
						x, y, op := nodeStr(c.Fset, ast.Unparen(be.X)), nodeStr(c.Fset, ast.Unparen(be.Y)), be.Op
						mentionsAbs := strings.Contains(x, "math.Abs("+operand) || strings.Contains(y, "math.Abs("+operand)
						if !gd.Val {
							op = map[token.Token]token.Token{token.LSS: token.GEQ, token.LEQ: token.GTR, token.GTR: token.LEQ, token.GEQ: token.LSS}[op]
						}
						if y == operand || strings.Contains(y, "math.Abs("+operand) {
							x, y = y, x
							op = map[token.Token]token.Token{token.LSS: token.GTR, token.LEQ: token.GEQ, token.GTR: token.LSS, token.GEQ: token.LEQ}[op]
						}
						if x == operand || mentionsAbs {
							switch op {
							case token.LSS, token.LEQ:
								upper = true
								if mentionsAbs {
									lower = true
								}
							case token.GTR, token.GEQ:
								lower = true
							}
						}
					}
				}
				if lower && upper {
					c.OK(key, call.Pos(), "the conversion is reached only with the operand bounded from both sides")
				} else {
					clean = false
					c.Violation(key, call.Pos(), "%s converts the float %s to an integer without a test that bounds it from both sides: for +Inf, NaN and every float of magnitude >= 2^63 the result is not the value of the float (MinInt64 on amd64), so a mixed comparison orders +Inf and 1e19 below every int while the float/float cell orders them above - < is not asymmetric and transitive across ints and floats, and min/max/order disagree with it", nodeStr(c.Fset, call), operand)
				}
				return true
			})
			if k == 0 && clean {
				c.OK(fmt.Sprintf("%s#no-float-to-int", where), b.Pos(), "no conversion of a float to an integer")
			}
		}
	}
	if n < 8 {
		c.Undecided("value#comparison-cells", token.NoPos, "only %d comparison cells found", n)
	}
}
