// pcheck decides structural necessary conditions of the semantic properties of
// hneemann/parser2 by static analysis of the current source tree.
package main

import (
	"encoding/json"
	"flag"
	"fmt"
	"os"
	"path/filepath"
	"sort"
	"strconv"
	"strings"
)

var properties = map[string]*Property{}

func register(p *Property) { properties[p.ID] = p }

type replayFile struct {
	Property   string     `json:"property"`
	Tier       string     `json:"tier"`
	Obligation Obligation `json:"obligation"`
	Repo       string     `json:"repo"`
	Hint       string     `json:"hint"`
}

func main() {
	prop := flag.String("prop", "", "property id (C01..C20)")
	tier := flag.String("tier", "quick", "quick or thorough")
	repo := flag.String("repo", "/repo", "repository working tree to analyse")
	verif := flag.String("verif", "/verif", "verification directory (evidence, out, known findings)")
	replay := flag.String("replay", "", "replay file: re-decide just that obligation")
	list := flag.Bool("list", false, "list properties and rules")
	listJSON := flag.Bool("list-json", false, "list properties, rules and explanations as JSON")
	noEvidence := flag.Bool("no-evidence", false, "do not write the evidence file (used by the self test)")
	verbose := flag.Bool("v", false, "print every obligation")
	flag.Parse()

	if *listJSON {
		type rj struct {
			ID, Title string
			Floor     int
		}
		type pj struct {
			ID, Technique, Explanation string
			Assumptions                []string
			Rules                      []rj
		}
		var out []pj
		var ids []string
		for id := range properties {
			ids = append(ids, id)
		}
		sort.Strings(ids)
		for _, id := range ids {
			p := properties[id]
			e := pj{ID: id, Technique: p.Technique, Explanation: p.Explanation, Assumptions: p.Assumptions}
			for _, r := range p.Rules {
				e.Rules = append(e.Rules, rj{r.ID, r.Title, r.Floor})
			}
			out = append(out, e)
		}
		b, _ := json.MarshalIndent(out, "", " ")
		fmt.Println(string(b))
		return
	}
	if *list {
		var ids []string
		for id := range properties {
			ids = append(ids, id)
		}
		sort.Strings(ids)
		for _, id := range ids {
			p := properties[id]
			fmt.Printf("%s  %s\n", id, p.Technique)
			for _, r := range p.Rules {
				th := ""
				if r.Thorough {
					th = " (thorough only)"
				}
				fmt.Printf("   %-8s floor=%-3d %s%s\n", r.ID, r.Floor, r.Title, th)
			}
		}
		return
	}

	var want *Obligation
	if *replay != "" {
		data, err := os.ReadFile(*replay)
		if err != nil {
			fmt.Fprintln(os.Stderr, "pcheck:", err)
			os.Exit(2)
		}
		var rf replayFile
		if err := json.Unmarshal(data, &rf); err != nil {
			fmt.Fprintln(os.Stderr, "pcheck:", err)
			os.Exit(2)
		}
		*prop = rf.Property
		*tier = rf.Tier
		want = &rf.Obligation
	}

	p, ok := properties[*prop]
	if !ok {
		fmt.Fprintf(os.Stderr, "pcheck: unknown property %q\n", *prop)
		os.Exit(2)
	}
	if *tier != "quick" && *tier != "thorough" {
		fmt.Fprintf(os.Stderr, "pcheck: unknown tier %q\n", *tier)
		os.Exit(2)
	}
	seed := 0
	if s := os.Getenv("VERIF_SEED"); s != "" {
		if v, err := strconv.Atoi(s); err == nil {
			seed = v
		}
	}

	kfs, err := loadKnownFindings(filepath.Join(*verif, "known_findings.jsonl"))
	if err != nil {
		fmt.Fprintln(os.Stderr, "pcheck:", err)
		os.Exit(2)
	}

	res := runProperty(p, *tier, *repo, kfs)

	if want != nil {
		// replay: report only the requested obligation
		for _, o := range res.obls {
			if o.Rule == want.Rule && o.Construct == want.Construct {
				fmt.Printf("replay %s %s %s: %s\n  at %s\n  %s\n", p.ID, o.Rule, o.Construct, o.Status, o.Pos, o.Detail)
				if o.Status == StViolated {
					fmt.Printf("VIOLATION property=%s replay=%s\n", p.ID, *replay)
					os.Exit(1)
				}
				os.Exit(0)
			}
		}
		fmt.Printf("replay %s %s %s: construct no longer present\n", p.ID, want.Rule, want.Construct)
		os.Exit(0)
	}

	cmd := "./run.sh " + p.ID + " " + *tier
	fmt.Printf("== %s (%s) technique: %s\n", p.ID, *tier, p.Technique)
	fmt.Printf("   analysed %d repository packages (%d with dependencies), %d files, %d functions; configurations: %s\n",
		res.stats["packages_repo"], res.stats["packages_total"], res.stats["files_repo"], res.stats["functions_repo"], strings.Join(res.configs, "; "))
	for _, r := range res.rules {
		fmt.Printf("   rule %-7s %-70s instances=%-3d floor=%-3d violated=%d known=%d undecided=%d\n", r.ID, trunc(r.Title, 70), r.Instances, r.Floor, r.Violated, r.Known, r.Undecided)
	}
	if *verbose {
		for _, o := range res.obls {
			fmt.Printf("     [%s] %s %s @%s %s\n", o.Status, o.Rule, o.Construct, o.Pos, o.Detail)
		}
	}

	broken := false
	if res.loadError != "" {
		fmt.Printf("BROKEN: %s\n", res.loadError)
		broken = true
	}
	if res.panicked != "" {
		fmt.Printf("BROKEN: analyser panic in %s\n", res.panicked)
		broken = true
	}
	for _, b := range res.blind {
		fmt.Printf("UNDECIDED: %s\n", b)
		broken = true
	}
	for _, o := range res.obls {
		if o.Status == StUndecided {
			fmt.Printf("UNDECIDED rule=%s anchor=%s at %s: %s\n", o.Rule, o.Construct, o.Pos, o.Detail)
			broken = true
		}
	}
	for _, o := range res.obls {
		if o.Status == StKnown {
			fmt.Printf("KNOWN-FINDING: property=%s rule=%s construct=%s at %s: %s\n", p.ID, o.Rule, o.Construct, o.Pos, o.Detail)
		}
	}

	if *tier == "thorough" && !*noEvidence && !broken && res.count(StViolated) == 0 {
		if ws := runWitnesses(p, *repo, *verif); len(ws) > 0 {
			cov, silent := summariseWitnesses(ws)
			res.extraCov = map[string]any{"fault_witnesses": cov}
			fmt.Printf("   fault witnesses: %d mutants and seeded changes of %s, %d applied to a scratch copy of this tree, %d re-detected\n", cov["mutants"], p.ID, cov["applied"], cov["re_detected"])
			for _, s := range silent {
				fmt.Printf("WITNESS-SILENT: %s applies to this tree but the check does not report it\n", s)
			}
		}
	}
	if !*noEvidence && !broken {
		if err := res.writeEvidence(filepath.Join(*verif, "evidence", p.ID+".json"), seed, cmd); err != nil {
			fmt.Fprintln(os.Stderr, "pcheck: writing evidence:", err)
			os.Exit(2)
		}
	}

	nviol := 0
	outDir := filepath.Join(*verif, "out")
	for _, o := range res.obls {
		if o.Status != StViolated {
			continue
		}
		nviol++
		fmt.Printf("violated: rule=%s construct=%s at %s\n          %s\n", o.Rule, o.Construct, o.Pos, o.Detail)
		path := filepath.Join(outDir, fmt.Sprintf("%s-%d.json", p.ID, nviol))
		rf := replayFile{Property: p.ID, Tier: *tier, Obligation: o, Repo: *repo,
			Hint: "static finding: open the position, the rule text is in DESIGN.md section 4; re-decide with ./run.sh --replay " + path}
		data, _ := json.MarshalIndent(rf, "", " ")
		if err := os.MkdirAll(outDir, 0o755); err == nil {
			_ = os.WriteFile(path, append(data, '\n'), 0o644)
		}
		fmt.Printf("VIOLATION property=%s replay=%s\n", p.ID, path)
	}
	if nviol > 0 {
		os.Exit(1)
	}
	if broken {
		os.Exit(2)
	}
	fmt.Printf("OK %s: %d obligations, %d discharged, %d known findings (%.1fs)\n", p.ID, res.count(StOK)+res.count(StKnown), res.count(StOK), res.count(StKnown), res.wall)
}

func trunc(s string, n int) string {
	if len(s) <= n {
		return s
	}
	return s[:n-1] + "…"
}
