package main

import (
	"encoding/json"
	"fmt"
	"os"
	"os/exec"
	"path/filepath"
	"regexp"
	"sort"
	"strings"
	"sync"
)

// Fault witnesses (thorough tier only): every hand written mutant of the
// property (mutants/<Cnn>-*.patch: one instance of one rule broken) and every
// seeded change recorded as detected (seeded/<Cnn>-*/patch.diff) is applied
// to a scratch copy of the tree that has just been analysed, and the quick
// check is run on the copy. A witness that applies must be reported again.
// This shows on every thorough run, for the current tree, that the rules are
// not passing vacuously (a rule that matches nothing, an idiom that is no
// longer recognised). A patch whose context no longer matches the tree is
// skipped and listed as such; a witness that applies and is not reported is
// printed as WITNESS-SILENT and recorded in the evidence. The verdict on the
// property itself is not changed by the witnesses: it is decided on /repo alone.

type witnessResult struct {
	Name   string   `json:"mutant"`
	Result string   `json:"result"` // re-detected | silent | undecided | not-applicable | error
	Rules  []string `json:"rules,omitempty"`
}

var violatedRe = regexp.MustCompile(`(?m)^violated: rule=(\S+)`)

func runWitnesses(p *Property, repo, verif string) []witnessResult {
	patches, _ := filepath.Glob(filepath.Join(verif, "mutants", p.ID+"-*.patch"))
	sort.Strings(patches)
	// the changes seeded by sub-agents that this property's check is recorded to detect
	seeds, _ := filepath.Glob(filepath.Join(verif, "seeded", p.ID+"-*", "patch.diff"))
	sort.Strings(seeds)
	for _, sp := range seeds {
		meta, err := os.ReadFile(filepath.Join(filepath.Dir(sp), "meta.json"))
		if err != nil {
			continue
		}
		var m struct {
			CheckResult struct {
				Status string `json:"status"`
			} `json:"check_result"`
		}
		if json.Unmarshal(meta, &m) == nil && m.CheckResult.Status == "detected" {
			patches = append(patches, sp)
		}
	}
	if len(patches) == 0 {
		return nil
	}
	self, err := os.Executable()
	if err != nil {
		return nil
	}
	res := make([]witnessResult, len(patches))
	sem := make(chan struct{}, 8)
	var wg sync.WaitGroup
	for i, pf := range patches {
		wg.Add(1)
		go func(i int, pf string) {
			defer wg.Done()
			sem <- struct{}{}
			defer func() { <-sem }()
			res[i] = oneWitness(self, p.ID, repo, verif, pf)
		}(i, pf)
	}
	wg.Wait()
	return res
}

func oneWitness(self, prop, repo, verif, patchFile string) witnessResult {
	w := witnessResult{Name: strings.TrimSuffix(filepath.Base(patchFile), ".patch")}
	if filepath.Base(patchFile) == "patch.diff" {
		w.Name = "seed:" + filepath.Base(filepath.Dir(patchFile))
	}
	dir, err := os.MkdirTemp("", "pcwit")
	if err != nil {
		w.Result = "error"
		return w
	}
	defer os.RemoveAll(dir)
	tree := filepath.Join(dir, "tree")
	if out, err := exec.Command("rsync", "-a", "--exclude", ".git", repo+"/", tree+"/").CombinedOutput(); err != nil {
		w.Result = "error"
		w.Rules = []string{strings.TrimSpace(string(out))}
		return w
	}
	// strict: no fuzz, so a patch that lands somewhere else is not taken for the witness
	patch := exec.Command("patch", "-p1", "-s", "-F0", "--no-backup-if-mismatch", "-i", patchFile)
	patch.Dir = tree
	if err := patch.Run(); err != nil {
		w.Result = "not-applicable"
		return w
	}
	out := filepath.Join(dir, "out")
	_ = os.MkdirAll(out, 0o755)
	if data, err := os.ReadFile(filepath.Join(verif, "known_findings.jsonl")); err == nil {
		_ = os.WriteFile(filepath.Join(out, "known_findings.jsonl"), data, 0o644)
	}
	cmd := exec.Command(self, "-prop", prop, "-tier", "quick", "-repo", tree, "-no-evidence", "-verif", out)
	cmd.Env = os.Environ()
	text, err := cmd.CombinedOutput()
	code := 0
	if ee, ok := err.(*exec.ExitError); ok {
		code = ee.ExitCode()
	} else if err != nil {
		w.Result = "error"
		return w
	}
	switch code {
	case 1:
		w.Result = "re-detected"
		seen := map[string]bool{}
		for _, m := range violatedRe.FindAllStringSubmatch(string(text), -1) {
			if !seen[m[1]] {
				seen[m[1]] = true
				w.Rules = append(w.Rules, m[1])
			}
		}
	case 0:
		w.Result = "silent"
	default:
		w.Result = "undecided"
	}
	return w
}

func summariseWitnesses(ws []witnessResult) (map[string]any, []string) {
	count := map[string]int{}
	var silent []string
	for _, w := range ws {
		count[w.Result]++
		if w.Result == "silent" || w.Result == "undecided" || w.Result == "error" {
			silent = append(silent, fmt.Sprintf("%s (%s)", w.Name, w.Result))
		}
	}
	return map[string]any{
		"what":           "hand written mutants of this property (one instance of one rule broken each) and the sub-agent seeded changes recorded as detected, applied without fuzz to a scratch copy of the analysed tree and decided by the quick check",
		"mutants":        len(ws),
		"applied":        len(ws) - count["not-applicable"],
		"re_detected":    count["re-detected"],
		"not_applicable": count["not-applicable"],
		"not_reported":   silent,
		"results":        ws,
	}, silent
}
