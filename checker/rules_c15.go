package main

import (
	"fmt"
	"go/ast"
	"go/constant"
	"go/token"
	"go/types"
	"golang.org/x/tools/go/packages"
	"sort"
	"strings"
)

type tokAnchors struct {
	info                                *types.Info
	next, peek, consume, readSkip, read *types.Func
	readStr, parseOperator, unread      *types.Func
	run                                 *ast.FuncDecl
	readSkipDecl                        *ast.FuncDecl
	flagIdx                             int // 1 + position of the comment flag among the parameters of readSkip (0: not determined yet)
	missing                             []string
}

func (c *Ctx) tokAnchors() *tokAnchors {
	root := c.Pkg("")
	ta := &tokAnchors{}
	if root == nil {
		ta.missing = append(ta.missing, "package parser2")
		return ta
	}
	ta.info = root.TypesInfo
	m := func(name string) *types.Func {
		f := LookupMethod(root, "Tokenizer", name)
		if f == nil {
			ta.missing = append(ta.missing, "parser2.Tokenizer."+name)
		}
		return f
	}
	ta.next, ta.peek, ta.readSkip, ta.read = m("next"), m("peek"), m("readSkip"), m("read")
	// consume may be merged into next
	ta.consume = LookupMethod(root, "Tokenizer", "consume")
	ta.readStr, ta.parseOperator, ta.unread = m("readStr"), m("parseOperator"), m("unread")
	ta.run = c.FuncDecl(root, "Tokenizer", "run")
	ta.readSkipDecl = c.FuncDecl(root, "Tokenizer", "readSkip")
	if ta.run == nil {
		ta.missing = append(ta.missing, "parser2.Tokenizer.run")
	}
	return ta
}

// readSkipFlagIndex: the position of the parameter of readSkip that is forwarded to next/peek (1 on the pinned tree).
func (ta *tokAnchors) readSkipFlagIndex() int {
	if ta.flagIdx != 0 {
		return ta.flagIdx - 1
	}
	ta.flagIdx = 2 // default: the second parameter
	if ta.readSkipDecl == nil || ta.readSkipDecl.Body == nil {
		return 1
	}
	fd := ta.readSkipDecl
	var params []types.Object
	for _, f := range fd.Type.Params.List {
		for _, nm := range f.Names {
			params = append(params, ta.info.Defs[nm])
		}
	}
	ast.Inspect(fd.Body, func(x ast.Node) bool {
		call, ok := x.(*ast.CallExpr)
		if !ok || len(call.Args) != 1 || !(isCallTo(ta.info, call, ta.next) || isCallTo(ta.info, call, ta.peek)) {
			return true
		}
		if id, ok := ast.Unparen(call.Args[0]).(*ast.Ident); ok {
			for i, p := range params {
				if ta.info.ObjectOf(id) == p {
					ta.flagIdx = i + 1
				}
			}
		}
		return true
	})
	return ta.flagIdx - 1
}

// skipArg returns the skipComment argument of a call to next/peek/consume/readSkip:
// "true", "false", "param" (forwarded parameter) or "" (not such a call).
func (ta *tokAnchors) skipArg(call *ast.CallExpr, fd *ast.FuncDecl) (string, string) {
	var arg ast.Expr
	name := ""
	switch {
	case isCallTo(ta.info, call, ta.next), isCallTo(ta.info, call, ta.peek), isCallTo(ta.info, call, ta.consume):
		if len(call.Args) == 1 {
			arg = call.Args[0]
		}
		name = Callee(ta.info, call).Name()
	case isCallTo(ta.info, call, ta.readSkip):
		// the comment flag of readSkip is the boolean parameter it hands to next/peek
		if idx := ta.readSkipFlagIndex(); idx >= 0 && idx < len(call.Args) {
			arg = call.Args[idx]
		}
		name = "readSkip"
	default:
		return "", ""
	}
	if arg == nil {
		return "?", name
	}
	if tv := ta.info.Types[arg]; tv.Value != nil && tv.Value.Kind() == constant.Bool {
		if constant.BoolVal(tv.Value) {
			return "true", name
		}
		return "false", name
	}
	if id, ok := ast.Unparen(arg).(*ast.Ident); ok && fd != nil {
		for _, f := range fd.Type.Params.List {
			for _, nm := range f.Names {
				if ta.info.Defs[nm] == ta.info.ObjectOf(id) {
					return "param", name
				}
			}
		}
	}
	return "?", name
}

// ---------------------------------------------------------------------------
// R15.1 comments are skipped between tokens only

func ruleR151(c *Ctx) {
	ta := c.tokAnchors()
	if len(ta.missing) > 0 {
		c.Undecided(strings.Join(ta.missing, ","), token.NoPos, "anchors not found")
		return
	}
	root := c.Pkg("")
	check := func(fd *ast.FuncDecl, want func(call *ast.CallExpr) string) {
		if fd == nil {
			return
		}
		k := 0
		ast.Inspect(fd.Body, func(x ast.Node) bool {
			call, ok := x.(*ast.CallExpr)
			if !ok {
				return true
			}
			got, name := ta.skipArg(call, fd)
			if got == "" {
				return true
			}
			k++
			key := fmt.Sprintf("parser2.Tokenizer.%s#%s[%d]", fd.Name.Name, name, k)
			w := want(call)
			if got == w {
				c.OK(key, call.Pos(), "comment skipping is %s here", map[string]string{"true": "on (token boundary)", "false": "off (inside a token)", "param": "forwarded unchanged"}[w])
			} else if w == "false" {
				c.Violation(key, call.Pos(), "while the characters of one token are being read, %s is called with comment skipping %s: a comment written tight against or inside the token is swallowed into it (e.g. 'let/**/x' becomes the identifier 'letx') and the token is attributed to the line behind the comment", name, got)
			} else if w == "true" {
				c.Violation(key, call.Pos(), "at a token boundary %s is called with comment skipping %s: a comment between two tokens is tokenized as operators instead of being skipped", name, got)
			} else {
				c.Violation(key, call.Pos(), "%s does not forward its skipComment parameter unchanged (passes %s)", fd.Name.Name, got)
			}
			return true
		})
	}
	// inside a token: everything false
	for _, name := range []string{"read", "readStr", "parseOperator"} {
		check(c.FuncDecl(root, "Tokenizer", name), func(*ast.CallExpr) string { return "false" })
	}
	// forwarders
	for _, name := range []string{"readSkip", "next", "consume"} {
		check(c.FuncDecl(root, "Tokenizer", name), func(*ast.CallExpr) string { return "param" })
	}
	// run: token boundaries are the switch init and the peek at the start of the default clause
	var sw *ast.SwitchStmt
	ast.Inspect(ta.run.Body, func(x ast.Node) bool {
		if s, ok := x.(*ast.SwitchStmt); ok && sw == nil {
			sw = s
		}
		return true
	})
	if sw == nil {
		c.Undecided("parser2.Tokenizer.run#switch", ta.run.Pos(), "token switch not found")
		return
	}
	check(ta.run, func(call *ast.CallExpr) string {
		if sw.Init != nil && sw.Init.Pos() <= call.Pos() && call.End() <= sw.Init.End() {
			return "true"
		}
		if isCallTo(ta.info, call, ta.peek) {
			// the rune that decides between number / identifier / operator: the first statement pair of the default clause
			for _, cl := range sw.Body.List {
				cc := cl.(*ast.CaseClause)
				if cc.List == nil && cc.Pos() <= call.Pos() && call.End() <= cc.End() {
					return "true"
				}
			}
		}
		return "false"
	})
}

// ---------------------------------------------------------------------------
// R15.2 comments are recognised at every token boundary, repeatedly, and counted once

func ruleR152(c *Ctx) {
	ta := c.tokAnchors()
	root := c.Pkg("")
	if len(ta.missing) > 0 || root == nil {
		c.Undecided(strings.Join(ta.missing, ","), token.NoPos, "anchors not found")
		return
	}
	info := ta.info
	peek := c.FuncDecl(root, "Tokenizer", "peek")
	g := c.CFG(peek)
	mentionsName := func(n ast.Node, name string) bool {
		return containsNode(n, func(y ast.Node) bool {
			switch t := y.(type) {
			case *ast.Ident:
				return t.Name == name
			case *ast.SelectorExpr:
				return t.Sel.Name == name
			}
			return false
		})
	}
	// the comment block: if t.allowComments && skipComment { ... }
	var block *ast.IfStmt
	inspectNoLit(peek.Body, func(x ast.Node) bool {
		if ifs, ok := x.(*ast.IfStmt); ok && block == nil && mentionsName(ifs.Cond, "allowComments") && mentionsName(ifs.Cond, "skipComment") {
			if _, isRet := ifs.Body.List[0].(*ast.ReturnStmt); !isRet || len(ifs.Body.List) > 1 {
				block = ifs
			}
		}
		return true
	})
	if block == nil {
		c.Undecided("parser2.Tokenizer.peek#comment-block", peek.Pos(), "comment recognition not found")
		return
	}
	// (a) the early return for a cached rune is not taken for a cached '/' when comments are to be skipped
	key := "parser2.Tokenizer.peek#cached-slash-reexamined"
	var early *ast.ReturnStmt
	inspectNoLit(peek.Body, func(x ast.Node) bool {
		r, ok := x.(*ast.ReturnStmt)
		if !ok || r.Pos() > block.Pos() {
			return true
		}
		for _, gd := range g.Guards(r) {
			if gd.Val && mentionsName(gd.Cond, "isLast") {
				early = r
			}
		}
		return true
	})
	if early == nil {
		c.OK(key, peek.Pos(), "no early return for a cached rune in front of the comment recognition")
	} else {
		exempt := false
		for _, gd := range g.Guards(early) {
			if mentionsName(gd.Cond, "skipComment") {
				exempt = true
			}
		}
		c.Check(exempt, key, early.Pos(), "a cached '/' is examined again when comments are to be skipped", "peek returns the cached look-ahead rune without looking at skipComment: a '/' that was read as the look-ahead of the previous token is never recognised as the start of a comment ('a+/**/1', '1/*x*/+a' are syntax errors)")
	}
	// (b) adjacent comments: the recognition is a loop
	key = "parser2.Tokenizer.peek#adjacent-comments"
	isLoop := false
	if len(block.Body.List) > 0 {
		if fs, ok := block.Body.List[0].(*ast.ForStmt); ok && fs.Cond != nil {
			if tvs := containsNode(fs.Cond, func(y ast.Node) bool {
				bl, ok := y.(*ast.BasicLit)
				return ok && bl.Value == "'/'"
			}); tvs {
				isLoop = true
			}
		}
	}
	c.Check(isLoop, key, block.Pos(), "comment recognition repeats while the next rune starts another comment", "comment recognition is done once per rune: of two adjacent comments ('/*x*//*y*/') only the first is skipped")
	// (c) the position remembered for the re-examination lies behind the skipped comments
	key = "parser2.Tokenizer.peek#snapshot-behind-comments"
	var snap *ast.AssignStmt
	inspectNoLit(peek.Body, func(x ast.Node) bool {
		as, ok := x.(*ast.AssignStmt)
		if !ok || len(as.Lhs) != 1 || len(as.Rhs) != 1 {
			return true
		}
		l, ok1 := ast.Unparen(as.Lhs[0]).(*ast.SelectorExpr)
		r, ok2 := ast.Unparen(as.Rhs[0]).(*ast.SelectorExpr)
		if ok1 && ok2 && r.Sel.Name == "str" && l.Sel.Name != "str" && info.TypeOf(l) == info.TypeOf(r) {
			snap = as
		}
		return true
	})
	if snap == nil {
		if early != nil {
			c.Undecided(key, peek.Pos(), "no snapshot of the input position found although a cached rune can be re-examined")
		} else {
			c.OK(key, peek.Pos(), "no re-examination, no snapshot needed")
		}
	} else {
		c.Check(snap.Pos() > block.End(), key, snap.Pos(), "the input position remembered for the re-examination is taken behind the comment skipping", "the input position that peek restores for a re-examination is remembered in front of the comment skipping: the comment is scanned a second time and its line breaks are counted twice (all later line numbers are too large)")
	}
	// (e) the search for the end of a block comment starts behind the whole opener: the branch taken for the second rune
	// '*' (decoded as s, w := DecodeRuneInString(...)) first moves the input - or slices it - by an offset that contains
	// w, the width of that '*'. Otherwise the '*' of the opener pairs with a following '/': "/*/" is a complete comment
	// and "/*/ ... */" ends too early.
	key = "parser2.Tokenizer.peek#block-comment-opener-consumed"
	{
		var starBranch *ast.BlockStmt
		var wObj types.Object
		ast.Inspect(block, func(x ast.Node) bool {
			ifs, ok := x.(*ast.IfStmt)
			if !ok || starBranch != nil {
				return true
			}
			be, ok := ast.Unparen(ifs.Cond).(*ast.BinaryExpr)
			if !ok || be.Op != token.EQL {
				return true
			}
			tv := info.Types[be.Y]
			if tv.Value == nil {
				return true
			}
			if v, ok := constant.Int64Val(tv.Value); !ok || v != '*' {
				return true
			}
			id, ok := ast.Unparen(be.X).(*ast.Ident)
			if !ok {
				return true
			}
			// s, w := utf8.DecodeRuneInString(...)
			if as, i := definingAssign(info, peek, info.ObjectOf(id)); as != nil && i == 0 && len(as.Lhs) == 2 {
				if wid, ok := as.Lhs[1].(*ast.Ident); ok && wid.Name != "_" {
					starBranch, wObj = ifs.Body, info.ObjectOf(wid)
				}
			}
			return true
		})
		if starBranch == nil || wObj == nil {
			c.Undecided(key, block.Pos(), "the branch for the second rune '*' of a block comment opener was not found")
		} else {
			mentionsW := func(e ast.Node) bool {
				return e != nil && containsNode(e, func(y ast.Node) bool {
					id, ok := y.(*ast.Ident)
					return ok && info.ObjectOf(id) == wObj
				})
			}
			isStr := func(e ast.Expr) bool {
				sel, ok := ast.Unparen(e).(*ast.SelectorExpr)
				return ok && sel.Sel.Name == "str"
			}
			// the first statement that touches the input decides
			verdict, where := "", token.NoPos
			for _, st := range starBranch.List {
				if verdict != "" {
					break
				}
				ast.Inspect(st, func(y ast.Node) bool {
					if verdict != "" {
						return false
					}
					switch t := y.(type) {
					case *ast.AssignStmt:
						if len(t.Lhs) == 1 && len(t.Rhs) == 1 && isStr(t.Lhs[0]) {
							if se, ok := ast.Unparen(t.Rhs[0]).(*ast.SliceExpr); ok && isStr(se.X) {
								where = t.Pos()
								if mentionsW(se.Low) {
									verdict = "ok"
								} else {
									verdict = "the input is advanced by " + nodeStr(c.Fset, se.Low) + ", which does not include the width of the '*'"
								}
								return false
							}
						}
					case *ast.CallExpr:
						// a search in the input: strings.Index(t.str[X:], ...), strings.Cut(t.str, ...), DecodeRuneInString(t.str)
						for _, a := range t.Args {
							switch ae := ast.Unparen(a).(type) {
							case *ast.SliceExpr:
								if isStr(ae.X) {
									where = t.Pos()
									if mentionsW(ae.Low) {
										verdict = "ok"
									} else {
										verdict = "the end of the comment is searched in " + nodeStr(c.Fset, ae) + ", an offset that does not include the width of the '*'"
									}
									return false
								}
							case *ast.SelectorExpr:
								if isStr(ae) {
									where = t.Pos()
									verdict = "the end of the comment is searched in the input before the opener was removed from it"
									return false
								}
							}
						}
					}
					return true
				})
			}
			switch verdict {
			case "ok":
				c.OK(key, where, "the input is moved behind both runes of the opener before the end of the comment is looked for")
			case "":
				c.Undecided(key, starBranch.Pos(), "no statement that advances or searches the input found in the block comment branch")
			default:
				c.Violation(key, where, "%s: the '*' of the opener can serve as the '*' of the terminator, so \"/*/\" is a complete comment and the rest of the real comment is parsed as program text", verdict)
			}
		}
	}
	// (d) line counting in the block comment loop and in run
	key = "parser2.Tokenizer.peek#block-comment-line-count"
	counted := false
	// the comment block and the Tokenizer methods it delegates to (skipBlockComment)
	scan := []ast.Node{block}
	ast.Inspect(block, func(x ast.Node) bool {
		if call, ok := x.(*ast.CallExpr); ok {
			if cal := Callee(info, call); cal != nil && cal.Pkg() == root.Types {
				if d := findFuncDecl(root, cal); d != nil && d.Body != nil && d != peek && d.Recv != nil && recvTypeName(d.Recv.List[0].Type) == "Tokenizer" {
					scan = append(scan, d.Body)
				}
			}
		}
		return true
	})
	for _, sc := range scan {
		ast.Inspect(sc, func(x ast.Node) bool {
			ifs, ok := x.(*ast.IfStmt)
			if !ok {
				return true
			}
			be, ok := ast.Unparen(ifs.Cond).(*ast.BinaryExpr)
			if !ok || be.Op != token.EQL {
				return true
			}
			if bl, ok := ast.Unparen(be.Y).(*ast.BasicLit); ok && bl.Value == `'\n'` {
				if containsNode(ifs.Body, func(y ast.Node) bool {
					inc, ok := y.(*ast.IncDecStmt)
					return ok && inc.Tok == token.INC && mentionsName(inc.X, "line")
				}) {
					counted = true
				}
			}
			return true
		})
	}
	// the bulk form: t.line += <T>(strings.Count(<skipped text>, "\n"))
	for _, sc := range scan {
		ast.Inspect(sc, func(x ast.Node) bool {
			as, ok := x.(*ast.AssignStmt)
			if !ok || as.Tok != token.ADD_ASSIGN || len(as.Lhs) != 1 || !mentionsName(as.Lhs[0], "line") {
				return true
			}
			if containsNode(as.Rhs[0], func(y ast.Node) bool {
				call, ok := y.(*ast.CallExpr)
				if !ok || len(call.Args) != 2 {
					return false
				}
				cal := Callee(info, call)
				if cal == nil || cal.Pkg() == nil || cal.Pkg().Path() != "strings" || cal.Name() != "Count" {
					return false
				}
				tv := info.Types[call.Args[1]]
				return tv.Value != nil && tv.Value.Kind() == constant.String && constant.StringVal(tv.Value) == "\n"
			}) {
				counted = true
			}
			return true
		})
	}
	c.Check(counted, key, block.Pos(), "line breaks inside block comments increment the line counter", "line breaks inside a block comment are not counted: tokens and errors behind the comment are reported on a too small line")
	key = "parser2.Tokenizer.run#newline-line-count"
	countedRun := false
	ast.Inspect(ta.run.Body, func(x ast.Node) bool {
		cc, ok := x.(*ast.CaseClause)
		if !ok {
			return true
		}
		for _, e := range cc.List {
			if bl, ok := ast.Unparen(e).(*ast.BasicLit); ok && bl.Value == `'\n'` {
				if len(cc.List) == 1 && containsNode(cc, func(y ast.Node) bool {
					inc, ok := y.(*ast.IncDecStmt)
					return ok && inc.Tok == token.INC && mentionsName(inc.X, "line")
				}) {
					countedRun = true
				}
			}
		}
		return true
	})
	c.Check(countedRun, key, ta.run.Pos(), "a line break between tokens increments the line counter", "the tokenizer does not count every line break between tokens")
}

// ---------------------------------------------------------------------------
// R15.3 escape table of string literals

func ruleR153(c *Ctx) {
	root := c.Pkg("")
	if root == nil {
		c.Undecided("package parser2", token.NoPos, "not found")
		return
	}
	info := root.TypesInfo
	fd := c.FuncDecl(root, "Tokenizer", "readStr")
	key := "parser2.Tokenizer.readStr#escape-table"
	if fd == nil {
		c.Undecided(key, token.NoPos, "not found")
		return
	}
	// the switch whose cases are the escape letters
	var sw *ast.SwitchStmt
	ast.Inspect(fd.Body, func(x ast.Node) bool {
		s, ok := x.(*ast.SwitchStmt)
		if !ok {
			return true
		}
		for _, cl := range s.Body.List {
			for _, e := range cl.(*ast.CaseClause).List {
				if tv := info.Types[e]; tv.Value != nil && tv.Value.ExactString() == "110" { // 'n'
					sw = s
				}
			}
		}
		return true
	})
	want := map[int64]int64{'n': '\n', 'r': '\r', 't': '\t', '"': '"', '\\': '\\'}
	got := map[int64]int64{}
	defaultKeeps := false
	if sw == nil {
		// the table as a function: if d, ok := unescape(e); ok { write(d) } else { write('\\'); write(e) }
		hsw, pos, keeps, ok := escapeHelperForm(c, root, fd, got)
		if !ok {
			c.Undecided(key, fd.Pos(), "escape switch not found (string literals are decoded in another way)")
			return
		}
		sw, defaultKeeps = hsw, keeps
		_ = pos
		r153verdict(c, key, sw.Pos(), want, got, defaultKeeps)
		return
	}
	for _, cl := range sw.Body.List {
		cc := cl.(*ast.CaseClause)
		var written []int64
		var writtenExprs []ast.Expr
		ast.Inspect(cc, func(x ast.Node) bool {
			call, ok := x.(*ast.CallExpr)
			if !ok {
				return true
			}
			if sel, ok := ast.Unparen(call.Fun).(*ast.SelectorExpr); ok && (sel.Sel.Name == "WriteRune" || sel.Sel.Name == "WriteByte") && len(call.Args) == 1 {
				writtenExprs = append(writtenExprs, call.Args[0])
				if tv := info.Types[call.Args[0]]; tv.Value != nil {
					if v, ok := constant.Int64Val(tv.Value); ok {
						written = append(written, v)
					}
				}
			}
			return true
		})
		if cc.List == nil {
			// default: backslash and the character itself
			if len(writtenExprs) == 2 && len(written) == 1 && written[0] == '\\' {
				if id, ok := ast.Unparen(writtenExprs[1]).(*ast.Ident); ok && ast.Unparen(sw.Tag) != nil && nodeStr(c.Fset, sw.Tag) == id.Name {
					defaultKeeps = true
				}
			}
			continue
		}
		for _, e := range cc.List {
			if tv := info.Types[e]; tv.Value != nil {
				if k, ok := constant.Int64Val(tv.Value); ok {
					if len(written) == 1 && len(writtenExprs) == 1 {
						got[k] = written[0]
					} else {
						got[k] = -1
					}
				}
			}
		}
	}
	r153verdict(c, key, sw.Pos(), want, got, defaultKeeps)
}

func r153verdict(c *Ctx, key string, pos token.Pos, want, got map[int64]int64, defaultKeeps bool) {
	var problems []string
	for k, v := range want {
		if g, ok := got[k]; !ok {
			problems = append(problems, fmt.Sprintf("\\%c is not decoded", rune(k)))
		} else if g != v {
			problems = append(problems, fmt.Sprintf("\\%c is decoded to %q instead of %q", rune(k), rune(g), rune(v)))
		}
	}
	for k := range got {
		if _, ok := want[k]; !ok {
			problems = append(problems, fmt.Sprintf("\\%c is treated as an escape", rune(k)))
		}
	}
	if !defaultKeeps {
		problems = append(problems, "an unknown escape does not keep the backslash and the character")
	}
	sort.Strings(problems)
	c.Check(len(problems) == 0, key, pos, `the escapes are exactly \n \r \t \" \\, any other pair is kept as it is`, "the escape table of string literals deviates: "+strings.Join(problems, "; "))
}

// escapeHelperForm recognises the escape table written as a function of the
// package, rune -> (rune, bool), used as
//
//	if d, ok := h(e); ok { write(d) } else { write('\\'); write(e) }
//
// It fills got from the switch of h and reports whether the else branch keeps
// the pair. ok is false if the form is not the one described.
func escapeHelperForm(c *Ctx, root *packages.Package, fd *ast.FuncDecl, got map[int64]int64) (*ast.SwitchStmt, token.Pos, bool, bool) {
	info := root.TypesInfo
	writes := func(b *ast.BlockStmt) ([]ast.Expr, bool) {
		var ws []ast.Expr
		for _, st := range b.List {
			es, ok := st.(*ast.ExprStmt)
			if !ok {
				return nil, false
			}
			call, ok := ast.Unparen(es.X).(*ast.CallExpr)
			if !ok || len(call.Args) != 1 {
				return nil, false
			}
			sel, ok := ast.Unparen(call.Fun).(*ast.SelectorExpr)
			if !ok || (sel.Sel.Name != "WriteRune" && sel.Sel.Name != "WriteByte") {
				return nil, false
			}
			ws = append(ws, call.Args[0])
		}
		return ws, true
	}
	var hsw *ast.SwitchStmt
	keeps, found := false, false
	ast.Inspect(fd.Body, func(x ast.Node) bool {
		ifs, ok := x.(*ast.IfStmt)
		if !ok || found {
			return true
		}
		as, ok := ifs.Init.(*ast.AssignStmt)
		if !ok || len(as.Lhs) != 2 || len(as.Rhs) != 1 {
			return true
		}
		// the table as a package level map: if d, ok := stringEscapes[e]; ok { write(d) } else { write('\\'); write(e) }
		if ix, isIx := ast.Unparen(as.Rhs[0]).(*ast.IndexExpr); isIx {
			okId, ok1 := as.Lhs[1].(*ast.Ident)
			dId, ok2 := as.Lhs[0].(*ast.Ident)
			cond, ok3 := ast.Unparen(ifs.Cond).(*ast.Ident)
			tid, ok4 := ast.Unparen(ix.X).(*ast.Ident)
			if !ok1 || !ok2 || !ok3 || !ok4 || info.ObjectOf(cond) != info.ObjectOf(okId) {
				return true
			}
			tv, ok := info.ObjectOf(tid).(*types.Var)
			if !ok || tv.Pkg() == nil || tv.Parent() != tv.Pkg().Scope() {
				return true
			}
			lit, has := singleDefExpr[tv]
			if !has {
				return true
			}
			cl, ok := ast.Unparen(lit).(*ast.CompositeLit)
			if !ok {
				return true
			}
			if _, isMap := info.TypeOf(cl).Underlying().(*types.Map); !isMap {
				return true
			}
			tbl := map[int64]int64{}
			for _, el := range cl.Elts {
				kv, ok := el.(*ast.KeyValueExpr)
				if !ok {
					return true
				}
				ktv, vtv := info.Types[kv.Key], info.Types[kv.Value]
				if ktv.Value == nil || vtv.Value == nil {
					return true
				}
				k, okk := constant.Int64Val(constant.ToInt(ktv.Value))
				v, okv := constant.Int64Val(constant.ToInt(vtv.Value))
				if !okk || !okv {
					return true
				}
				tbl[k] = v
			}
			thenW, okT := writes(ifs.Body)
			if !okT || len(thenW) != 1 {
				return true
			}
			if id, ok := ast.Unparen(thenW[0]).(*ast.Ident); !ok || info.ObjectOf(id) != info.ObjectOf(dId) {
				return true
			}
			if eb, ok := ifs.Else.(*ast.BlockStmt); ok {
				if ws, okE := writes(eb); okE && len(ws) == 2 {
					if wtv := info.Types[ws[0]]; wtv.Value != nil {
						if v, ok := constant.Int64Val(constant.ToInt(wtv.Value)); ok && v == '\\' {
							if _, isId := ast.Unparen(ws[1]).(*ast.Ident); isId && nodeStr(c.Fset, ws[1]) == nodeStr(c.Fset, ix.Index) {
								keeps = true
							}
						}
					}
				}
			}
			for k, v := range tbl {
				got[k] = v
			}
			// the switch statement the caller reports at: none - use a synthetic one at the position of the if
			hsw, found = &ast.SwitchStmt{Switch: ifs.Pos(), Body: &ast.BlockStmt{}}, true
			return true
		}
		call, ok := ast.Unparen(as.Rhs[0]).(*ast.CallExpr)
		if !ok || len(call.Args) != 1 {
			return true
		}
		cal := Callee(info, call)
		if cal == nil || cal.Pkg() != root.Types {
			return true
		}
		hd := findFuncDecl(root, cal)
		if hd == nil || hd.Body == nil || hd.Recv != nil || hd.Type.Params.NumFields() != 1 || hd.Type.Results.NumFields() != 2 || len(hd.Type.Params.List[0].Names) != 1 {
			return true
		}
		okId, ok1 := as.Lhs[1].(*ast.Ident)
		dId, ok2 := as.Lhs[0].(*ast.Ident)
		cond, ok3 := ast.Unparen(ifs.Cond).(*ast.Ident)
		if !ok1 || !ok2 || !ok3 || info.ObjectOf(cond) != info.ObjectOf(okId) {
			return true
		}
		// the function: a switch over its parameter, every case a single return (v, true); after it return (_, false)
		param := info.ObjectOf(hd.Type.Params.List[0].Names[0])
		if len(hd.Body.List) != 2 {
			return true
		}
		sw, ok := hd.Body.List[0].(*ast.SwitchStmt)
		if !ok || sw.Init != nil || sw.Tag == nil {
			return true
		}
		if id, ok := ast.Unparen(sw.Tag).(*ast.Ident); !ok || info.ObjectOf(id) != param {
			return true
		}
		isBool := func(e ast.Expr, want bool) bool {
			tv := info.Types[e]
			return tv.Value != nil && tv.Value.Kind() == constant.Bool && constant.BoolVal(tv.Value) == want
		}
		last, ok := hd.Body.List[1].(*ast.ReturnStmt)
		if !ok || len(last.Results) != 2 || !isBool(last.Results[1], false) {
			return true
		}
		tbl := map[int64]int64{}
		for _, cl := range sw.Body.List {
			cc := cl.(*ast.CaseClause)
			if len(cc.Body) != 1 {
				return true
			}
			r, ok := cc.Body[0].(*ast.ReturnStmt)
			if !ok || len(r.Results) != 2 {
				return true
			}
			if cc.List == nil {
				if !isBool(r.Results[1], false) {
					return true
				}
				continue
			}
			if !isBool(r.Results[1], true) {
				return true
			}
			for _, e := range cc.List {
				tv := info.Types[e]
				if tv.Value == nil {
					return true
				}
				k, ok := constant.Int64Val(constant.ToInt(tv.Value))
				if !ok {
					return true
				}
				if rv := info.Types[r.Results[0]]; rv.Value != nil {
					v, _ := constant.Int64Val(constant.ToInt(rv.Value))
					tbl[k] = v
				} else if id, ok := ast.Unparen(r.Results[0]).(*ast.Ident); ok && info.ObjectOf(id) == param {
					tbl[k] = k
				} else {
					tbl[k] = -1
				}
			}
		}
		// the use: then-branch writes the decoded rune only, else-branch the backslash and the argument
		thenW, okT := writes(ifs.Body)
		if !okT || len(thenW) != 1 {
			return true
		}
		if id, ok := ast.Unparen(thenW[0]).(*ast.Ident); !ok || info.ObjectOf(id) != info.ObjectOf(dId) {
			return true
		}
		if eb, ok := ifs.Else.(*ast.BlockStmt); ok {
			if ws, okE := writes(eb); okE && len(ws) == 2 {
				if tv := info.Types[ws[0]]; tv.Value != nil {
					if v, ok := constant.Int64Val(constant.ToInt(tv.Value)); ok && v == '\\' {
						if nodeStr(c.Fset, ws[1]) == nodeStr(c.Fset, call.Args[0]) {
							if _, isId := ast.Unparen(ws[1]).(*ast.Ident); isId {
								keeps = true
							}
						}
					}
				}
			}
		}
		for k, v := range tbl {
			got[k] = v
		}
		hsw, found = sw, true
		return true
	})
	if !found {
		return nil, token.NoPos, false, false
	}
	return hsw, hsw.Pos(), keeps, true
}

// ---------------------------------------------------------------------------
// R15.4 alias tables

// aliasTable extracts the typographic alias table of the tokenizer and the
// fields that hold aliased runes. Two forms: a switch over a field whose cases
// assign constants to that field, or an assignment field = f(field) with f a
// function of the package that maps runes by a switch returning constants.
func (c *Ctx) aliasTable(root *packages.Package) (map[rune]rune, map[types.Object]bool) {
	info := root.TypesInfo
	table := map[rune]rune{}
	fields := map[types.Object]bool{}
	caseRunes := func(cc *ast.CaseClause) []rune {
		var rs []rune
		for _, e := range cc.List {
			if tv := info.Types[e]; tv.Value != nil {
				if k, ok := constant.Int64Val(constant.ToInt(tv.Value)); ok && k >= 128 {
					rs = append(rs, rune(k))
				}
			}
		}
		return rs
	}
	for _, f := range root.Syntax {
		for _, d := range f.Decls {
			fd, ok := d.(*ast.FuncDecl)
			if !ok || fd.Body == nil || fd.Recv == nil || recvTypeName(fd.Recv.List[0].Type) != "Tokenizer" {
				continue
			}
			ast.Inspect(fd.Body, func(x ast.Node) bool {
				switch t := x.(type) {
				case *ast.SwitchStmt:
					if t.Tag == nil {
						return true
					}
					tagSel, ok := ast.Unparen(t.Tag).(*ast.SelectorExpr)
					if !ok {
						return true
					}
					tsel, ok := info.Selections[tagSel]
					if !ok || tsel.Kind() != types.FieldVal {
						return true
					}
					for _, cl := range t.Body.List {
						cc := cl.(*ast.CaseClause)
						for _, st := range cc.Body {
							if as, ok := st.(*ast.AssignStmt); ok && len(as.Lhs) == 1 && len(as.Rhs) == 1 {
								if l, ok := ast.Unparen(as.Lhs[0]).(*ast.SelectorExpr); ok {
									if ls, ok := info.Selections[l]; ok && ls.Obj() == tsel.Obj() {
										if tv := info.Types[as.Rhs[0]]; tv.Value != nil {
											if v, ok := constant.Int64Val(constant.ToInt(tv.Value)); ok {
												for _, r := range caseRunes(cc) {
													table[r] = rune(v)
													fields[tsel.Obj()] = true
												}
											}
										}
									}
								}
							}
						}
					}
				case *ast.AssignStmt:
					// t.last = typographicAlias(t.last)
					if len(t.Lhs) != 1 || len(t.Rhs) != 1 {
						return true
					}
					l, ok := ast.Unparen(t.Lhs[0]).(*ast.SelectorExpr)
					if !ok {
						return true
					}
					ls, ok := info.Selections[l]
					if !ok || ls.Kind() != types.FieldVal {
						return true
					}
					call, ok := ast.Unparen(t.Rhs[0]).(*ast.CallExpr)
					if !ok || len(call.Args) != 1 {
						return true
					}
					cal := Callee(info, call)
					if cal == nil || cal.Pkg() != root.Types {
						return true
					}
					md := findFuncDecl(root, cal)
					if md == nil || md.Body == nil || md.Type.Params.NumFields() != 1 || len(md.Type.Params.List[0].Names) != 1 {
						return true
					}
					param := info.Defs[md.Type.Params.List[0].Names[0]]
					ast.Inspect(md.Body, func(y ast.Node) bool {
						sw, ok := y.(*ast.SwitchStmt)
						if !ok || sw.Tag == nil {
							return true
						}
						if id, ok := ast.Unparen(sw.Tag).(*ast.Ident); !ok || info.ObjectOf(id) != param {
							return true
						}
						for _, cl := range sw.Body.List {
							cc := cl.(*ast.CaseClause)
							for _, st := range cc.Body {
								if r, ok := st.(*ast.ReturnStmt); ok && len(r.Results) == 1 {
									if tv := info.Types[r.Results[0]]; tv.Value != nil {
										if v, ok := constant.Int64Val(constant.ToInt(tv.Value)); ok {
											for _, rr := range caseRunes(cc) {
												table[rr] = rune(v)
												fields[ls.Obj()] = true
											}
										}
									}
								}
							}
						}
						return true
					})
				}
				return true
			})
		}
	}
	return table, fields
}

func ruleR154(c *Ctx) {
	ta := c.tokAnchors()
	root := c.Pkg("")
	if len(ta.missing) > 0 || root == nil {
		c.Undecided(strings.Join(ta.missing, ","), token.NoPos, "anchors not found")
		return
	}
	info := ta.info
	peek := c.FuncDecl(root, "Tokenizer", "peek")
	// (a) typographic aliases in peek
	key := "parser2.Tokenizer.peek#typographic-aliases"
	want := map[rune]rune{'•': '*', '×': '*', '÷': '/', '–': '-', 'ˆ': '^'}
	got, _ := c.aliasTable(root)
	var problems []string
	for k, v := range want {
		if g, ok := got[k]; !ok {
			problems = append(problems, fmt.Sprintf("%c is no alias any more", k))
		} else if g != v {
			problems = append(problems, fmt.Sprintf("%c is an alias of %c instead of %c", k, g, v))
		}
	}
	for k, v := range got {
		if _, ok := want[k]; !ok {
			problems = append(problems, fmt.Sprintf("%c became an alias of %c", k, v))
		}
	}
	sort.Strings(problems)
	c.Check(len(problems) == 0, key, peek.Pos(), "• × → *, ÷ → /, – → -, ˆ → ^", "the typographic aliases deviate from the documented table: "+strings.Join(problems, "; "))

	// (b) superscripts in run: ^ and the digit
	supers := "⁰¹²³⁴⁵⁶⁷⁸⁹"
	key = "parser2.Tokenizer.run#superscripts"
	problems = nil
	seen := map[rune]bool{}
	unresolved := false
	ast.Inspect(ta.run.Body, func(x ast.Node) bool {
		cc, ok := x.(*ast.CaseClause)
		if !ok {
			return true
		}
		for _, e := range cc.List {
			tv := info.Types[e]
			if tv.Value == nil {
				continue
			}
			k, ok := constant.Int64Val(tv.Value)
			if !ok || !strings.ContainsRune(supers, rune(k)) {
				continue
			}
			seen[rune(k)] = true
			digit := strings.IndexRune(supers, rune(k)) / len("⁰")
			// ⁰ is 3 bytes, ¹²³ are 2 bytes: compute the index by runes
			digit = 0
			for i, r := range []rune(supers) {
				if r == rune(k) {
					digit = i
				}
			}
			// the tag of the switch has the value of this case constant
			bind := map[types.Object]constant.Value{}
			if sw, ok := c.Parent(c.Parent(cc)).(*ast.SwitchStmt); ok {
				switch tg := sw.Tag.(type) {
				case *ast.Ident:
					bind[info.ObjectOf(tg)] = tv.Value
				}
				if as, ok := sw.Init.(*ast.AssignStmt); ok && len(as.Lhs) == 1 {
					if id, ok := as.Lhs[0].(*ast.Ident); ok {
						bind[info.ObjectOf(id)] = tv.Value
					}
				}
			}
			typs, images, resolved := emittedTokens(c, root, info, cc, bind, 0)
			if !resolved {
				unresolved = true
				continue
			}
			if len(cc.List) > 1 {
				// a case with several constants: the emitted tokens were computed for this constant only
			}
			if len(images) != 2 || images[0] != "^" || images[1] != fmt.Sprint(digit) || len(typs) != 2 || typs[0] != "tOperate" || typs[1] != "tNumber" {
				problems = append(problems, fmt.Sprintf("%c emits %v %v instead of the operator ^ and the number %d", rune(k), typs, images, digit))
			}
		}
		return true
	})
	// second mechanism: a table lookup in front of the matchers
	//   if exp := slices.Index(table, n); exp >= 0 { tokens <- ^; tokens <- strconv.Itoa(exp); break }
	ast.Inspect(ta.run.Body, func(x ast.Node) bool {
		ifs, ok := x.(*ast.IfStmt)
		if !ok {
			return true
		}
		as, ok := ifs.Init.(*ast.AssignStmt)
		if !ok || len(as.Lhs) != 1 || len(as.Rhs) != 1 {
			return true
		}
		call, ok := ast.Unparen(as.Rhs[0]).(*ast.CallExpr)
		if !ok || len(call.Args) != 2 {
			return true
		}
		cal := Callee(info, call)
		if cal == nil || cal.Pkg() == nil || !(cal.Pkg().Path() == "slices" && cal.Name() == "Index" || cal.Pkg().Path() == "strings" && cal.Name() == "IndexRune") {
			return true
		}
		tbl, ok := constEval(info, call.Args[0], nil)
		if !ok || tbl.Kind() != constant.String {
			return true
		}
		be, ok := ast.Unparen(ifs.Cond).(*ast.BinaryExpr)
		idxId, ok2 := as.Lhs[0].(*ast.Ident)
		runeId, ok3 := ast.Unparen(call.Args[1]).(*ast.Ident)
		if !ok || !ok2 || !ok3 {
			return true
		}
		if id, ok := ast.Unparen(be.X).(*ast.Ident); !ok || info.ObjectOf(id) != info.ObjectOf(idxId) {
			return true
		}
		bound, ok := constInt(info.Types[be.Y])
		if !ok {
			return true
		}
		byteIdx := cal.Pkg().Path() == "strings"
		pos := 0
		for i, r := range []rune(constant.StringVal(tbl)) {
			idx := i
			if byteIdx {
				idx = pos
			}
			pos += len(string(r))
			in := false
			switch be.Op {
			case token.GEQ:
				in = idx >= bound
			case token.GTR:
				in = idx > bound
			case token.NEQ:
				in = idx != bound
			}
			if !in || !strings.ContainsRune(supers, r) {
				continue
			}
			seen[r] = true
			digit := 0
			for j, sr := range []rune(supers) {
				if sr == r {
					digit = j
				}
			}
			bind := map[types.Object]constant.Value{info.ObjectOf(idxId): constant.MakeInt64(int64(idx)), info.ObjectOf(runeId): constant.MakeInt64(int64(r))}
			typs, images, resolved := emittedTokens(c, root, info, ifs.Body, bind, 0)
			if !resolved {
				unresolved = true
				continue
			}
			if len(images) != 2 || images[0] != "^" || images[1] != fmt.Sprint(digit) || len(typs) != 2 || typs[0] != "tOperate" || typs[1] != "tNumber" {
				problems = append(problems, fmt.Sprintf("%c emits %v %v instead of the operator ^ and the number %d", r, typs, images, digit))
			}
		}
		return true
	})
	if len(seen) == 0 || unresolved {
		c.Undecided(key, ta.run.Pos(), "the superscript digits are not handled by switch cases that emit constant tokens (directly or through a helper): mechanism not recognised")
		goto exclusion
	}
	for _, r := range supers {
		if !seen[r] {
			problems = append(problems, fmt.Sprintf("%c is not handled", r))
		}
	}
	c.Check(len(problems) == 0, key, ta.run.Pos(), "every superscript digit emits ^ and its digit", "superscript handling deviates: "+strings.Join(problems, "; "))

exclusion:
	// (c) the matchers exclude exactly the superscripts the tokenizer handles
	key = "parser2#superscript-exclusion"
	problems = nil
	nStr := 0
	for _, name := range []string{"simpleNumber", "simpleIdentifier"} {
		fd := c.FuncDecl(root, "", name)
		if fd == nil {
			problems = append(problems, name+" not found")
			continue
		}
		// the matcher and the predicates of the package it is built from (isPlainDigit)
		bodies := []ast.Node{fd.Body}
		ast.Inspect(fd.Body, func(x ast.Node) bool {
			if call, ok := x.(*ast.CallExpr); ok {
				if cal := Callee(info, call); cal != nil && cal.Pkg() == root.Types {
					if hd := findFuncDecl(root, cal); hd != nil && hd.Body != nil && hd != fd {
						bodies = append(bodies, hd.Body)
					}
				}
			}
			return true
		})
		for _, body := range bodies {
			ast.Inspect(body, func(x ast.Node) bool {
				call, ok := x.(*ast.CallExpr)
				if !ok {
					return true
				}
				if cal := Callee(info, call); cal != nil && cal.Pkg() != nil && (cal.Pkg().Path() == "strings" && cal.Name() == "ContainsRune" || cal.Pkg().Path() == "slices" && cal.Name() == "Contains") && len(call.Args) == 2 {
					if tv, ok := constEval(info, call.Args[0], nil); ok && tv.Kind() == constant.String {
						nStr++
						s := constant.StringVal(tv)
						a, b := []rune(s), []rune(supers)
						sort.Slice(a, func(i, j int) bool { return a[i] < a[j] })
						sort.Slice(b, func(i, j int) bool { return b[i] < b[j] })
						if string(a) != string(b) {
							problems = append(problems, fmt.Sprintf("%s excludes %q", name, s))
						}
					}
				}
				// the exclusion as a range table of the package: unicode.Is(superscriptDigits, r)
				if cal := Callee(info, call); cal != nil && cal.Pkg() != nil && cal.Pkg().Path() == "unicode" && (cal.Name() == "Is" || cal.Name() == "In") && len(call.Args) == 2 {
					if tid, ok := ast.Unparen(call.Args[0]).(*ast.Ident); ok {
						rp := &runePred{c: c, pkg: root}
						if set, ok := rp.rangeTableLiteral(tid); ok {
							nStr++
							var want runeSet
							for _, r := range supers {
								want = append(want, runeIv{r, r})
							}
							want = rsNorm(want)
							if missing, extra := rsMinus(want, set), rsMinus(set, want); len(missing) > 0 || len(extra) > 0 {
								msg := name + " excludes the table " + tid.Name
								if len(missing) > 0 {
									msg += ", which lacks " + rsString(missing, 6)
								}
								if len(extra) > 0 {
									msg += ", which also holds " + rsString(extra, 6)
								}
								problems = append(problems, msg)
							}
						}
					}
				}
				return true
			})
		}
	}
	if nStr == 0 {
		c.Undecided(key, token.NoPos, "exclusion sets not found")
	} else {
		c.Check(len(problems) == 0, key, token.NoPos, "numbers and identifiers exclude exactly the ten superscript digits", "the superscript exclusion of the matchers deviates from the superscripts the tokenizer handles: "+strings.Join(problems, "; "))
	}
}

// ---------------------------------------------------------------------------
// R15.6 quoted identifiers denote their exact content

func ruleR156(c *Ctx) {
	ta := c.tokAnchors()
	root := c.Pkg("")
	if len(ta.missing) > 0 || root == nil {
		c.Undecided(strings.Join(ta.missing, ","), token.NoPos, "anchors not found")
		return
	}
	info := ta.info
	key := "parser2.Tokenizer.run#quoted-identifier"
	var clause *ast.CaseClause
	ast.Inspect(ta.run.Body, func(x ast.Node) bool {
		cc, ok := x.(*ast.CaseClause)
		if !ok {
			return true
		}
		for _, e := range cc.List {
			if bl, ok := ast.Unparen(e).(*ast.BasicLit); ok && bl.Value == `'\''` {
				clause = cc
			}
		}
		return true
	})
	if clause == nil {
		c.Undecided(key, ta.run.Pos(), "quoted identifier clause not found")
		return
	}
	readsTables := func(n ast.Node) string {
		res := ""
		ast.Inspect(n, func(y ast.Node) bool {
			if sel, ok := y.(*ast.SelectorExpr); ok && (sel.Sel.Name == "keyWord" || sel.Sel.Name == "textOperators") {
				res = sel.Sel.Name
			}
			return res == ""
		})
		return res
	}
	bad := readsTables(clause)
	// helpers called from the clause
	ast.Inspect(clause, func(y ast.Node) bool {
		call, ok := y.(*ast.CallExpr)
		if !ok || bad != "" {
			return true
		}
		if cal := Callee(info, call); cal != nil && cal.Pkg() == root.Types {
			sig := cal.Type().(*types.Signature)
			if sig.Recv() != nil {
				if fd := c.FuncDecl(root, "Tokenizer", cal.Name()); fd != nil {
					if t := readsTables(fd.Body); t != "" {
						bad = t + " (in " + cal.Name() + ")"
					}
				}
			}
		}
		return true
	})
	emitsIdent := containsNodeDeep(clause, func(y ast.Node) bool {
		cl, ok := y.(*ast.CompositeLit)
		if !ok || !isNamed(info.TypeOf(cl), modPath, "Token") || len(cl.Elts) < 1 {
			return false
		}
		id, ok := cl.Elts[0].(*ast.Ident)
		return ok && id.Name == "tIdent"
	})
	switch {
	case bad != "":
		c.Violation(key, clause.Pos(), "the content of a quoted identifier is looked up in %s: 'if', 'default' or a text operator written in quotes becomes a keyword/operator token instead of an identifier with exactly that content", bad)
	case !emitsIdent:
		c.Violation(key, clause.Pos(), "the quoted identifier clause does not emit an identifier token")
	default:
		c.OK(key, clause.Pos(), "a quoted identifier is emitted as an identifier token with its exact content, without keyword or text operator lookup")
	}
}

// emittedTokens lists the Token literals (type constant, image) that the node
// creates, in source order; calls to functions of the same package are followed
// (two levels) with their constant arguments bound to the parameters.
// resolved is false if an image is not a constant.
func emittedTokens(c *Ctx, pkg *packages.Package, info *types.Info, n ast.Node, bind map[types.Object]constant.Value, depth int) (typs, images []string, resolved bool) {
	resolved = true
	ast.Inspect(n, func(y ast.Node) bool {
		switch t := y.(type) {
		case *ast.CompositeLit:
			if !isNamed(info.TypeOf(t), modPath, "Token") || len(t.Elts) < 2 {
				return true
			}
			if id, ok := t.Elts[0].(*ast.Ident); ok {
				typs = append(typs, id.Name)
			} else {
				typs = append(typs, "?")
			}
			var v constant.Value
			if tv := info.Types[t.Elts[1]]; tv.Value != nil {
				v = tv.Value
			} else if id, ok := ast.Unparen(t.Elts[1]).(*ast.Ident); ok && bind != nil {
				v = bind[info.ObjectOf(id)]
			}
			if v == nil && bind != nil {
				// an image computed from the scanned rune and constant tables: strconv.Itoa(strings.IndexRune(digits, n))
				if cv, ok := constEval(info, t.Elts[1], bind); ok {
					v = cv
				}
			}
			if v != nil && v.Kind() == constant.String {
				images = append(images, constant.StringVal(v))
			} else {
				images = append(images, "?")
				resolved = false
			}
			return false
		case *ast.CallExpr:
			if depth >= 2 {
				return true
			}
			cal := Callee(info, t)
			if cal == nil || cal.Pkg() != pkg.Types {
				return true
			}
			fd := findFuncDecl(pkg, cal)
			if fd == nil || fd.Body == nil {
				return true
			}
			nb := map[types.Object]constant.Value{}
			i := 0
			for _, f := range fd.Type.Params.List {
				for _, nm := range f.Names {
					if i < len(t.Args) {
						if tv := info.Types[t.Args[i]]; tv.Value != nil {
							nb[info.Defs[nm]] = tv.Value
						} else if id, ok := ast.Unparen(t.Args[i]).(*ast.Ident); ok && bind != nil {
							if v, ok := bind[info.ObjectOf(id)]; ok {
								nb[info.Defs[nm]] = v
							}
						}
					}
					i++
				}
			}
			ty, im, r := emittedTokens(c, pkg, info, fd.Body, nb, depth+1)
			typs = append(typs, ty...)
			images = append(images, im...)
			if !r {
				resolved = false
			}
		}
		return true
	})
	return
}

func findFuncDecl(pkg *packages.Package, fn *types.Func) *ast.FuncDecl {
	for _, f := range pkg.Syntax {
		for _, d := range f.Decls {
			if fd, ok := d.(*ast.FuncDecl); ok && pkg.TypesInfo.Defs[fd.Name] == types.Object(fn.Origin()) {
				return fd
			}
		}
	}
	return nil
}

// ---------------------------------------------------------------------------
// R15.7 string literals and quoted identifiers are read as written

// ruleR157: the typographic aliases are implemented by overwriting the rune
// cache (a switch over a Tokenizer field whose cases assign constants to that
// field). Every Tokenizer method that returns such a field - directly or via
// another such method - delivers aliased runes. The readers of string
// literals and of quoted identifiers must build their text from methods that
// do not: otherwise "a×b" denotes a*b.
func ruleR157(c *Ctx) {
	ta := c.tokAnchors()
	root := c.Pkg("")
	if len(ta.missing) > 0 || root == nil {
		c.Undecided(strings.Join(ta.missing, ","), token.NoPos, "anchors not found")
		return
	}
	info := ta.info
	// 1. aliased fields
	_, aliased := c.aliasTable(root)
	var methods []*ast.FuncDecl
	for _, f := range root.Syntax {
		for _, d := range f.Decls {
			if fd, ok := d.(*ast.FuncDecl); ok && fd.Body != nil && fd.Recv != nil && recvTypeName(fd.Recv.List[0].Type) == "Tokenizer" {
				methods = append(methods, fd)
			}
		}
	}
	// 2. methods that deliver aliased runes
	aliasedMethod := map[*types.Func]bool{}
	for changed := true; changed; {
		changed = false
		for _, fd := range methods {
			obj, _ := info.Defs[fd.Name].(*types.Func)
			if obj == nil || aliasedMethod[obj] {
				continue
			}
			sig := obj.Type().(*types.Signature)
			if sig.Results().Len() != 1 {
				continue
			}
			if bt, ok := sig.Results().At(0).Type().Underlying().(*types.Basic); !ok || bt.Kind() != types.Int32 {
				continue
			}
			var isAliasedExpr func(e ast.Expr, depth int) bool
			isAliasedExpr = func(e ast.Expr, depth int) bool {
				e = ast.Unparen(e)
				switch t := e.(type) {
				case *ast.SelectorExpr:
					if s, ok := info.Selections[t]; ok && s.Kind() == types.FieldVal {
						return aliased[s.Obj()]
					}
				case *ast.CallExpr:
					if cal := Callee(info, t); cal != nil {
						return aliasedMethod[cal]
					}
				case *ast.Ident:
					if depth < 2 {
						if as, i := definingAssign(info, fd, info.ObjectOf(t)); as != nil && len(as.Lhs) == len(as.Rhs) {
							return isAliasedExpr(as.Rhs[i], depth+1)
						}
					}
				}
				return false
			}
			inspectNoLit(fd.Body, func(x ast.Node) bool {
				if r, ok := x.(*ast.ReturnStmt); ok && len(r.Results) == 1 && isAliasedExpr(r.Results[0], 0) {
					if !aliasedMethod[obj] {
						aliasedMethod[obj] = true
						changed = true
					}
				}
				return true
			})
		}
	}
	// 3. the readers of literals
	checkReader := func(key string, fd *ast.FuncDecl, depth int) {
		var bad, multi []string
		n := 0
		var visit func(fd *ast.FuncDecl, depth int)
		visit = func(fd *ast.FuncDecl, depth int) {
			ast.Inspect(fd.Body, func(x ast.Node) bool {
				call, ok := x.(*ast.CallExpr)
				if !ok {
					return true
				}
				sel, ok := ast.Unparen(call.Fun).(*ast.SelectorExpr)
				if !ok {
					return true
				}
				if (sel.Sel.Name == "WriteRune" || sel.Sel.Name == "WriteByte") && len(call.Args) == 1 {
					arg := ast.Unparen(call.Args[0])
					if info.Types[arg].Value != nil {
						return true
					}
					n++
					src := arg
					if id, ok := arg.(*ast.Ident); ok {
						if countAssignments(info, fd, info.ObjectOf(id)) > 1 {
							// several definitions: all from readers that deliver runes as written, all from aliasing readers, or mixed
							nAliased, nPlain := 0, 0
							ast.Inspect(fd.Body, func(y ast.Node) bool {
								as, ok := y.(*ast.AssignStmt)
								if !ok || len(as.Lhs) != len(as.Rhs) {
									return true
								}
								for i, l := range as.Lhs {
									if li, ok := l.(*ast.Ident); ok && info.ObjectOf(li) == info.ObjectOf(id) {
										if sc, ok := ast.Unparen(as.Rhs[i]).(*ast.CallExpr); ok {
											if cal := Callee(info, sc); cal != nil && aliasedMethod[cal] {
												nAliased++
												continue
											} else if cal != nil {
												nPlain++
												continue
											}
										}
										nAliased, nPlain = nAliased+1, nPlain+1 // something else: mixed
									}
								}
								return true
							})
							switch {
							case nAliased == 0:
								// every definition is a reader that delivers the rune as written
							case nPlain == 0:
								bad = append(bad, fmt.Sprintf("%s writes the rune delivered by a reader that replaces the typographic aliases", declName(root, fd)))
							default:
								// c := t.next(..); if raw { c = t.lastRaw }: which rune is written depends on the path
								multi = append(multi, fmt.Sprintf("%s writes %s, which is assigned more than once", declName(root, fd), id.Name))
							}
							return true
						}
						if as, i := definingAssign(info, fd, info.ObjectOf(id)); as != nil && len(as.Lhs) == len(as.Rhs) {
							src = ast.Unparen(as.Rhs[i])
						}
					}
					if sc, ok := src.(*ast.CallExpr); ok {
						if cal := Callee(info, sc); cal != nil && aliasedMethod[cal] {
							bad = append(bad, fmt.Sprintf("%s writes the rune delivered by %s, which replaces the typographic aliases", declName(root, fd), cal.Name()))
						}
					}
					return true
				}
				// delegation to another reader of the tokenizer that returns the text
				if cal := Callee(info, call); cal != nil && depth < 2 {
					if sig := cal.Type().(*types.Signature); sig.Recv() != nil && sig.Results().Len() == 1 {
						if bt, ok := sig.Results().At(0).Type().Underlying().(*types.Basic); ok && bt.Info()&types.IsString != 0 {
							if d := findFuncDecl(root, cal); d != nil && d.Body != nil && d != fd && recvTypeName(d.Recv.List[0].Type) == "Tokenizer" {
								visit(d, depth+1)
							}
						}
					}
				}
				return true
			})
		}
		visit(fd, depth)
		switch {
		case len(bad) > 0:
			c.Violation(key, fd.Pos(), "%s: a literal containing • × ÷ – ˆ does not denote its exact content", strings.Join(bad, "; "))
		case len(multi) > 0:
			c.Undecided(key, fd.Pos(), "%s: whether the rune is the one as written depends on the path (a mode flag); the rule follows single definitions only", strings.Join(multi, "; "))
		case n == 0:
			c.Undecided(key, fd.Pos(), "no rune is written by this reader")
		default:
			c.OK(key, fd.Pos(), "the text is built from runes as written (aliased readers: %d, none used here)", len(aliasedMethod))
		}
	}
	if fd := c.FuncDecl(root, "Tokenizer", "readStr"); fd != nil {
		checkReader("parser2.Tokenizer.readStr#runes-as-written", fd, 0)
	} else {
		c.Undecided("parser2.Tokenizer.readStr#runes-as-written", token.NoPos, "readStr not found")
	}
	// quoted identifier: the case clause for the quote character in run
	found := false
	ast.Inspect(ta.run.Body, func(x ast.Node) bool {
		cc, ok := x.(*ast.CaseClause)
		if !ok {
			return true
		}
		for _, e := range cc.List {
			if tv := info.Types[e]; tv.Value != nil && tv.Value.Kind() == constant.Int && tv.Value.ExactString() == "39" {
				found = true
				key := "parser2.Tokenizer.run#quoted-identifier-runes-as-written"
				n := 0
				for _, s := range cc.Body {
					ast.Inspect(s, func(y ast.Node) bool {
						call, ok := y.(*ast.CallExpr)
						if !ok || n > 0 {
							return true
						}
						cal := Callee(info, call)
						if cal == nil {
							return true
						}
						sig := cal.Type().(*types.Signature)
						if sig.Recv() == nil || sig.Results().Len() != 1 {
							return true
						}
						if bt, ok := sig.Results().At(0).Type().Underlying().(*types.Basic); !ok || bt.Info()&types.IsString == 0 {
							return true
						}
						if d := findFuncDecl(root, cal); d != nil && d.Body != nil {
							n++
							checkReader(key, d, 0)
						}
						return true
					})
				}
				if n == 0 {
					c.Undecided(key, cc.Pos(), "the reader of the quoted identifier was not found")
				}
			}
		}
		return true
	})
	if !found {
		c.Undecided("parser2.Tokenizer.run#quoted-identifier-runes-as-written", ta.run.Pos(), "case for the quote character not found")
	}
}

// ---------------------------------------------------------------------------
// R15.8 the image of a number or identifier is made of the runes that were accepted

// ruleR158: the readers of numbers and identifiers (read/readSkip) ask the
// matcher about the rune the tokenizer delivers - for a typographic alias the
// ASCII character it stands for - and the image of the token has to consist of
// exactly those runes: every accepted rune is appended to the result, and the
// result is nothing else (not a slice of the raw input, in which the alias is
// still the typographic character: 1e–5 would be matched but not parsed).
func ruleR158(c *Ctx) {
	ta := c.tokAnchors()
	root := c.Pkg("")
	if len(ta.missing) > 0 || root == nil {
		c.Undecided(strings.Join(ta.missing, ","), token.NoPos, "anchors not found")
		return
	}
	info := ta.info
	n := 0
	for _, name := range []string{"readSkip", "readRaw"} {
		fd := c.FuncDecl(root, "Tokenizer", name)
		if fd == nil {
			continue
		}
		n++
		key := "parser2.Tokenizer." + name + "#image-of-accepted-runes"
		// the validated rune: argument of the call of the function valued parameter
		var validated types.Object
		var validParam types.Object
		if fd.Type.Params != nil {
			for _, f := range fd.Type.Params.List {
				if _, ok := info.TypeOf(f.Type).Underlying().(*types.Signature); ok && len(f.Names) == 1 {
					validParam = info.Defs[f.Names[0]]
				}
			}
		}
		ast.Inspect(fd.Body, func(x ast.Node) bool {
			if call, ok := x.(*ast.CallExpr); ok && len(call.Args) == 1 {
				if id, ok := ast.Unparen(call.Fun).(*ast.Ident); ok && validParam != nil && info.ObjectOf(id) == validParam {
					if a, ok := ast.Unparen(call.Args[0]).(*ast.Ident); ok {
						validated = info.ObjectOf(a)
					}
				}
			}
			return true
		})
		if validated == nil {
			c.Undecided(key, fd.Pos(), "the call of the matcher was not found")
			continue
		}
		// the accumulator: written with the validated rune
		var acc types.Object
		ast.Inspect(fd.Body, func(x ast.Node) bool {
			call, ok := x.(*ast.CallExpr)
			if !ok || len(call.Args) != 1 {
				return true
			}
			sel, ok := ast.Unparen(call.Fun).(*ast.SelectorExpr)
			if !ok || (sel.Sel.Name != "WriteRune" && sel.Sel.Name != "WriteByte") {
				return true
			}
			if a, ok := ast.Unparen(call.Args[0]).(*ast.Ident); ok && info.ObjectOf(a) == validated {
				if r := rootIdent(sel.X); r != nil {
					acc = info.ObjectOf(r)
				}
			}
			return true
		})
		// every return hands out the accumulator's text
		okRet, nRet := true, 0
		bad := ""
		inspectNoLit(fd.Body, func(x ast.Node) bool {
			r, ok := x.(*ast.ReturnStmt)
			if !ok || len(r.Results) != 1 {
				return true
			}
			nRet++
			call, ok := ast.Unparen(r.Results[0]).(*ast.CallExpr)
			if ok {
				if sel, ok := ast.Unparen(call.Fun).(*ast.SelectorExpr); ok && sel.Sel.Name == "String" {
					if rid := rootIdent(sel.X); rid != nil && acc != nil && info.ObjectOf(rid) == acc {
						return true
					}
				}
			}
			okRet = false
			bad = nodeStr(c.Fset, r.Results[0])
			return true
		})
		switch {
		case acc == nil:
			c.Violation(key, fd.Pos(), "the runes accepted by the matcher are not collected: the image of the token is %s, not the text the matcher has seen (a typographic alias inside a number or identifier, e.g. the en dash in 1e–5, is matched as its ASCII character but the image keeps the typographic one)", bad)
		case !okRet || nRet == 0:
			c.Violation(key, fd.Pos(), "the image returned is %s instead of the collected accepted runes", bad)
		default:
			c.OK(key, fd.Pos(), "the image is exactly the sequence of runes the matcher accepted")
		}
	}
	if n == 0 {
		c.Undecided("parser2.Tokenizer.readSkip", token.NoPos, "reader not found")
	}
}

// ---------------------------------------------------------------------------
// R15.9 string literals are decoded once.
//
// The tokenizer decodes the escapes of a string literal; the image of the
// token is the text the literal denotes. The string converter that a
// generator hands to the parser (FromString of the value package, the
// StringConverter hook) receives that decoded text: it has to wrap it as it
// is. A converter that processes escapes again (\\uXXXX, \\n, unquoting) decodes
// twice: the literal "\\\\u0041" (backslash, u0041) becomes "A".

func ruleR159(c *Ctx) {
	n := 0
	for _, pkg := range c.RepoPkgs {
		if strings.Contains(pkg.PkgPath, "/example") || strings.HasSuffix(pkg.PkgPath, "/gen") {
			continue
		}
		info := pkg.TypesInfo
		for _, f := range pkg.Syntax {
			for _, d := range f.Decls {
				fd, ok := d.(*ast.FuncDecl)
				if !ok || fd.Body == nil || fd.Recv == nil || fd.Name.Name != "FromString" {
					continue
				}
				if fd.Type.Params == nil || len(fd.Type.Params.List) != 1 || len(fd.Type.Params.List[0].Names) != 1 {
					continue
				}
				pobj := info.Defs[fd.Type.Params.List[0].Names[0]]
				if b, ok := pobj.Type().Underlying().(*types.Basic); !ok || b.Info()&types.IsString == 0 {
					continue
				}
				n++
				key := declName(pkg, fd) + "#identity"
				// every call that receives the text (or something computed from it) other than a conversion to a string type
				var bad *ast.CallExpr
				ast.Inspect(fd.Body, func(x ast.Node) bool {
					call, ok := x.(*ast.CallExpr)
					if !ok || bad != nil {
						return true
					}
					if tv, ok := info.Types[call.Fun]; ok && tv.IsType() {
						return true // conversion
					}
					// the adapter of a function to the interface calls its receiver: func (f ConverterFunc) FromString(s) V { return f(s) }
					if id, ok := ast.Unparen(call.Fun).(*ast.Ident); ok && len(fd.Recv.List[0].Names) == 1 && info.ObjectOf(id) == info.Defs[fd.Recv.List[0].Names[0]] {
						return true
					}
					bad = call
					return true
				})
				if bad != nil {
					c.Violation(key, bad.Pos(), "the string converter does more than wrapping the text it is given (%s): the tokenizer has already decoded the escapes of the literal, so any further processing of the text decodes a second time - a literal that denotes a backslash followed by letters (a Windows path, a regular expression, the six characters backslash-u-0-0-4-1) changes its value", nodeStr(c.Fset, bad))
				} else {
					c.OK(key, fd.Pos(), "the string converter wraps the decoded text of the literal as it is")
				}
			}
		}
	}
	if n == 0 {
		c.Undecided("repo#string-converters", token.NoPos, "no FromString(string) method found (the string converter of the value package is expected)")
	}
}

// ---------------------------------------------------------------------------
// R15.10 the tokenizer scans the source exactly as it was handed to Parse
//
// Lines are counted by the tokenizer while it scans. Whatever is cut off or
// rewritten before the text reaches it (trimmed blanks and line breaks, a
// normalised line ending, a removed byte order mark) is not counted: every
// line reported afterwards is too small by the removed line breaks, and
// layout that pushes the first token down by blank lines no longer equals
// layout that does so with a comment.

func ruleR1510(c *Ctx) {
	root := c.Pkg("")
	if root == nil {
		c.Undecided("package parser2", token.NoPos, "not found")
		return
	}
	newTok := LookupFunc(root, "NewTokenizer")
	if newTok == nil {
		c.Undecided("parser2.NewTokenizer", token.NoPos, "not found")
		return
	}
	// unchangedParam: e is a string parameter of fn that is never assigned in fn (or a local with one definition that is one)
	var unchangedParam func(info *types.Info, fn ast.Node, e ast.Expr, depth int) (bool, string)
	unchangedParam = func(info *types.Info, fn ast.Node, e ast.Expr, depth int) (bool, string) {
		// a conversion (string(b)) changes nothing
		if call, ok := ast.Unparen(e).(*ast.CallExpr); ok && len(call.Args) == 1 && depth < 3 {
			if tv, isT := info.Types[call.Fun]; isT && tv.IsType() {
				if id, isID := ast.Unparen(call.Args[0]).(*ast.Ident); isID {
					if v, isVar := info.ObjectOf(id).(*types.Var); isVar && countAssignments(info, fn, v) == 0 {
						return true, ""
					}
				}
			}
		}
		// cutting a constant that holds no line break off one end (a byte order mark) removes no line
		if call, ok := ast.Unparen(e).(*ast.CallExpr); ok && len(call.Args) == 2 && depth < 3 {
			if cal := Callee(info, call); cal != nil && cal.Pkg() != nil && cal.Pkg().Path() == "strings" {
				switch cal.Name() {
				case "TrimPrefix", "TrimSuffix", "TrimLeft", "TrimRight", "Trim":
					if tv := info.Types[call.Args[1]]; tv.Value != nil && tv.Value.Kind() == constant.String && !strings.ContainsAny(constant.StringVal(tv.Value), "\n\r") {
						return unchangedParam(info, fn, call.Args[0], depth+1)
					}
				}
			}
		}
		id, ok := ast.Unparen(e).(*ast.Ident)
		if !ok {
			return false, "the expression " + nodeStr(c.Fset, e)
		}
		obj := info.ObjectOf(id)
		var ft *ast.FuncType
		switch t := fn.(type) {
		case *ast.FuncDecl:
			ft = t.Type
		case *ast.FuncLit:
			ft = t.Type
		}
		isParam := false
		if ft != nil && ft.Params != nil {
			for _, f := range ft.Params.List {
				for _, nm := range f.Names {
					if info.Defs[nm] == obj {
						isParam = true
					}
				}
			}
		}
		if isParam {
			if n := countAssignments(info, fn, obj); n > 0 {
				if as, i := definingAssign(info, fn, obj); as != nil && len(as.Rhs) == len(as.Lhs) {
					// str = strings.TrimPrefix(str, bom)
					if call, ok := ast.Unparen(as.Rhs[i]).(*ast.CallExpr); ok && n == 1 && len(call.Args) == 2 && depth < 3 {
						if a0, ok := ast.Unparen(call.Args[0]).(*ast.Ident); ok && info.ObjectOf(a0) == obj {
							if cal := Callee(info, call); cal != nil && cal.Pkg() != nil && cal.Pkg().Path() == "strings" {
								switch cal.Name() {
								case "TrimPrefix", "TrimSuffix", "TrimLeft", "TrimRight", "Trim":
									if tv := info.Types[call.Args[1]]; tv.Value != nil && tv.Value.Kind() == constant.String && !strings.ContainsAny(constant.StringVal(tv.Value), "\n\r") {
										return true, ""
									}
								}
							}
						}
					}
					return false, fmt.Sprintf("%s, which is overwritten by %s", id.Name, nodeStr(c.Fset, as.Rhs[i]))
				}
				return false, id.Name + ", which is assigned in this function"
			}
			return true, ""
		}
		if depth < 3 && countAssignments(info, fn, obj) == 1 {
			if as, i := definingAssign(info, fn, obj); as != nil && len(as.Rhs) == len(as.Lhs) {
				return unchangedParam(info, fn, as.Rhs[i], depth+1)
			}
		}
		return false, "the variable " + id.Name
	}
	n := 0
	for _, pkg := range c.RepoPkgs {
		info := pkg.TypesInfo
		forEachFuncBody([]*packages.Package{pkg}, func(_ *packages.Package, fn ast.Node, body *ast.BlockStmt) {
			k := 0
			inspectNoLit(body, func(x ast.Node) bool {
				call, ok := x.(*ast.CallExpr)
				if !ok || !isCallTo(info, call, newTok) || len(call.Args) == 0 {
					return true
				}
				k++
				n++
				key := fmt.Sprintf("%s#source-unchanged[%d]", c.FuncName(fn)+litSuffix(c, fn), k)
				if ok, why := unchangedParam(info, fn, call.Args[0], 0); ok {
					c.OK(key, call.Pos(), "the tokenizer gets the string parameter of the function as it is")
				} else {
					c.Violation(key, call.Pos(), "the text handed to the tokenizer is %s, not the source as it was passed in: line breaks (and blanks, comments) that are removed or rewritten before the tokenizer sees them are not counted, so every reported line is too small by the removed line breaks and no longer the line on which the token starts", why)
				}
				return true
			})
		})
	}
	// the constructor stores its parameter
	if fd := c.FuncDecl(root, "", "NewTokenizer"); fd != nil && fd.Body != nil {
		info := root.TypesInfo
		key := "parser2.NewTokenizer#source-unchanged"
		found, good, why := false, false, ""
		ast.Inspect(fd.Body, func(x ast.Node) bool {
			kv, ok := x.(*ast.KeyValueExpr)
			if !ok {
				return true
			}
			kid, ok := kv.Key.(*ast.Ident)
			if !ok {
				return true
			}
			if b, isB := info.TypeOf(kv.Value).Underlying().(*types.Basic); !isB || b.Kind() != types.String {
				return true
			}
			if v, ok := info.ObjectOf(kid).(*types.Var); ok && v.IsField() && !found {
				found = true
				good, why = unchangedParam(info, fd, kv.Value, 0)
			}
			return true
		})
		if found {
			n++
			if good {
				c.OK(key, fd.Pos(), "the scanned text is the parameter as it is")
			} else {
				c.Violation(key, fd.Pos(), "the tokenizer scans %s, not the text it was given: what is removed before scanning is not counted as lines", why)
			}
		}
	}
	if n < 2 {
		c.Undecided("parser2#tokenizer-construction", token.NoPos, "only %d construction sites of the tokenizer found", n)
	}
}

// ---------------------------------------------------------------------------
// R15.11 the width of a decoded rune is not dropped
//
// The scanner decodes a rune and later advances the input by "the width of
// that rune". Rune and width come out of one call; if the width is stored into
// a variable that nothing reads afterwards (a name that happens to be in scope
// instead of the one the advance uses), the advance works with the width of an
// earlier rune: a multi byte character leaves its trailing bytes in the input,
// which come back as invalid tokens or split an identifier.

func ruleR1511(c *Ctx) {
	root := c.Pkg("")
	if root == nil {
		c.Undecided("package parser2", token.NoPos, "not found")
		return
	}
	info := root.TypesInfo
	n := 0
	forEachFuncBody([]*packages.Package{root}, func(_ *packages.Package, fn ast.Node, body *ast.BlockStmt) {
		k := 0
		inspectNoLit(body, func(x ast.Node) bool {
			as, ok := x.(*ast.AssignStmt)
			if !ok || len(as.Lhs) != 2 || len(as.Rhs) != 1 {
				return true
			}
			call, ok := ast.Unparen(as.Rhs[0]).(*ast.CallExpr)
			if !ok || !isDecodeRune(info, call) {
				return true
			}
			id, ok := ast.Unparen(as.Lhs[1]).(*ast.Ident)
			if !ok || id.Name == "_" {
				return true
			}
			obj := info.ObjectOf(id)
			k++
			n++
			key := fmt.Sprintf("%s#decode-width[%d]:%s", c.FuncName(fn)+litSuffix(c, fn), k, id.Name)
			g := c.CFG(fn)
			if g == nil {
				c.Undecided(key, as.Pos(), "no flow graph")
				return true
			}
			reads := func(nd ast.Node) bool {
				found := false
				var lhsOnly map[*ast.Ident]bool
				if a2, ok := nd.(*ast.AssignStmt); ok && (a2.Tok == token.ASSIGN || a2.Tok == token.DEFINE) {
					lhsOnly = map[*ast.Ident]bool{}
					for _, l := range a2.Lhs {
						if li, ok := ast.Unparen(l).(*ast.Ident); ok {
							lhsOnly[li] = true
						}
					}
				}
				ast.Inspect(nd, func(y ast.Node) bool {
					if _, isLit := y.(*ast.FuncLit); isLit {
						// a literal that mentions the variable may read it whenever it runs
					}
					if yi, ok := y.(*ast.Ident); ok && info.ObjectOf(yi) == obj && !lhsOnly[yi] {
						found = true
					}
					return !found
				})
				return found
			}
			writes := func(nd ast.Node) bool {
				a2, ok := nd.(*ast.AssignStmt)
				if !ok {
					return false
				}
				for _, l := range a2.Lhs {
					if li, ok := ast.Unparen(l).(*ast.Ident); ok && info.ObjectOf(li) == obj {
						return true
					}
				}
				return false
			}
			live, _ := g.PathAvoiding(as, reads, writes)
			if live {
				c.OK(key, as.Pos(), "the width is read on some path before it is overwritten")
			} else {
				c.Violation(key, as.Pos(), "the width of the decoded rune is stored into %s, which nothing reads before it is overwritten or goes out of scope: whatever advances the input afterwards uses the width of an earlier rune, so a character of several bytes leaves its trailing bytes in the input (a×b parses, a/*c*/×b does not)", id.Name)
			}
			return true
		})
	})
	if n < 3 {
		c.Undecided("parser2#decode-sites", token.NoPos, "only %d decode sites with a named width found", n)
	}
}

// ---------------------------------------------------------------------------
// R15.12 comment skipping is opt-in
//
// Comment detection runs in front of operator detection: with comments
// enabled, "//" and "/*" never reach the operator table. A parser for an
// operator table that contains such a spelling (or "/" followed by a prefix
// "*") therefore only works while comments are off, which is the documented
// default. The constructor of the parser must not switch them on.

func ruleR1512(c *Ctx) {
	root := c.Pkg("")
	if root == nil {
		c.Undecided("package parser2", token.NoPos, "not found")
		return
	}
	info := root.TypesInfo
	n := 0
	for _, f := range root.Syntax {
		ast.Inspect(f, func(x ast.Node) bool {
			cl, ok := x.(*ast.CompositeLit)
			if !ok || !isNamed(info.TypeOf(cl), modPath, "Parser") {
				return true
			}
			fd := c.EnclosingDecl(cl)
			if fd == nil {
				return true
			}
			n++
			key := declName(root, fd) + "#comments-off-by-default"
			on := false
			for _, el := range cl.Elts {
				if kv, ok := el.(*ast.KeyValueExpr); ok {
					if kid, ok := kv.Key.(*ast.Ident); ok && kid.Name == "allowComments" {
						if tv := info.Types[kv.Value]; tv.Value == nil || tv.Value.Kind() != constant.Bool || constant.BoolVal(tv.Value) {
							on = true
						}
					}
				}
			}
			// assignments in the constructor
			ast.Inspect(fd.Body, func(y ast.Node) bool {
				as, ok := y.(*ast.AssignStmt)
				if !ok || len(as.Lhs) != len(as.Rhs) {
					return true
				}
				for i, l := range as.Lhs {
					if sel, ok := ast.Unparen(l).(*ast.SelectorExpr); ok && sel.Sel.Name == "allowComments" {
						if tv := info.Types[as.Rhs[i]]; tv.Value == nil || tv.Value.Kind() != constant.Bool || constant.BoolVal(tv.Value) {
							on = true
						}
					}
				}
				return true
			})
			if on {
				c.Violation(key, cl.Pos(), "the parser is created with comment skipping switched on: comment detection runs in front of operator detection, so for an operator table with // (or / and a prefix *) a//b+c parses as a and the rest is dropped without an error, and malformed input like a+b// is accepted")
			} else {
				c.OK(key, cl.Pos(), "a new parser skips no comments until AllowComments is called")
			}
			return true
		})
	}
	if n < 1 {
		c.Undecided("parser2.NewParser", token.NoPos, "no literal of Parser found")
	}
}
