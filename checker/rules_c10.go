package main

import (
	"fmt"
	"go/ast"
	"go/token"
	"go/types"
	"sort"
	"strings"

	"golang.org/x/tools/go/packages"
)

// evalBody is a function body that can run during an evaluation.
type evalBody struct {
	pkg  *packages.Package
	fn   ast.Node // *ast.FuncDecl or *ast.FuncLit
	name string
}

// evalReach computes the function bodies reachable from evaluation entry
// points: every function or literal that receives a value stack, closed under
// static calls, method values, function values and interface dispatch by
// method name (packages value, value/export, xmlWriter, funcGen, listMap).
func (c *Ctx) evalReach() []evalBody {
	a := c.genAnchors()
	if len(a.missing) > 0 {
		return nil
	}
	pkgs := evalPkgs(c)
	type fnode struct {
		pkg  *packages.Package
		decl *ast.FuncDecl
	}
	decls := map[*types.Func]fnode{}
	byName := map[string][]*types.Func{}
	for _, pkg := range pkgs {
		for _, f := range pkg.Syntax {
			for _, d := range f.Decls {
				if fd, ok := d.(*ast.FuncDecl); ok && fd.Body != nil {
					if obj, ok := pkg.TypesInfo.Defs[fd.Name].(*types.Func); ok {
						decls[obj.Origin()] = fnode{pkg, fd}
						if fd.Recv != nil {
							byName[fd.Name.Name] = append(byName[fd.Name.Name], obj.Origin())
						}
					}
				}
			}
		}
	}
	hasStackParam := func(pkg *packages.Package, ft *ast.FuncType) bool {
		if ft.Params == nil {
			return false
		}
		for _, f := range ft.Params.List {
			if a.isStack(pkg.TypesInfo.TypeOf(f.Type)) {
				return true
			}
		}
		return false
	}
	var res []evalBody
	seen := map[*types.Func]bool{}
	var work []*types.Func
	scan := func(pkg *packages.Package, body ast.Node) {
		info := pkg.TypesInfo
		ast.Inspect(body, func(n ast.Node) bool {
			switch t := n.(type) {
			case *ast.CallExpr:
				if cal := Callee(info, t); cal != nil {
					if _, ok := decls[cal]; ok {
						work = append(work, cal)
					} else if sig, ok := cal.Type().(*types.Signature); ok && sig.Recv() != nil {
						if _, isIface := sig.Recv().Type().Underlying().(*types.Interface); isIface {
							work = append(work, byName[cal.Name()]...)
						}
					}
				}
			case *ast.SelectorExpr:
				if s, ok := info.Selections[t]; ok && s.Kind() == types.MethodVal {
					if fn, ok := s.Obj().(*types.Func); ok {
						if _, ok := decls[fn.Origin()]; ok {
							work = append(work, fn.Origin())
						}
					}
				}
			case *ast.Ident:
				if fn, ok := info.Uses[t].(*types.Func); ok {
					if _, ok := decls[fn.Origin()]; ok {
						work = append(work, fn.Origin())
					}
				}
			}
			return true
		})
	}
	for fn, nd := range decls {
		if hasStackParam(nd.pkg, nd.decl.Type) {
			work = append(work, fn)
		}
	}
	for _, pkg := range pkgs {
		for _, f := range pkg.Syntax {
			ast.Inspect(f, func(n ast.Node) bool {
				if lit, ok := n.(*ast.FuncLit); ok && hasStackParam(pkg, lit.Type) {
					// literals in functions that are not reachable themselves (registration tables)
					res = append(res, evalBody{pkg, lit, c.FuncName(lit) + litSuffix(c, lit)})
					scan(pkg, lit.Body)
				}
				return true
			})
		}
	}
	for len(work) > 0 {
		fn := work[len(work)-1]
		work = work[:len(work)-1]
		if seen[fn] {
			continue
		}
		seen[fn] = true
		nd := decls[fn]
		res = append(res, evalBody{nd.pkg, nd.decl, declName(nd.pkg, nd.decl)})
		scan(nd.pkg, nd.decl.Body)
	}
	sort.Slice(res, func(i, j int) bool { return res[i].fn.Pos() < res[j].fn.Pos() })
	return res
}

// ---------------------------------------------------------------------------
// R10.1c evaluation code stores nothing that outlives the evaluation

func ruleR101effects(c *Ctx) {
	vp := c.Pkg("value")
	if vp == nil {
		c.Undecided("package value", token.NoPos, "not found")
		return
	}
	valueIface, _ := LookupType(vp, "Value").Type().Underlying().(*types.Interface)
	bodies := c.evalReach()
	if len(bodies) < 150 {
		c.Undecided("value#evaluation-reachable-functions", token.NoPos, "only %d function bodies reachable from evaluation found", len(bodies))
		return
	}
	configTypes := func(t types.Type) bool {
		return isNamed(t, modPath+"/funcGen", "FunctionGenerator") || isNamed(t, modPath+"/value", "FunctionGenerator") || isNamed(t, modPath+"/funcGen", "optimizer") || isNamed(t, modPath, "Parser")
	}
	nStores := 0
	done := map[ast.Node]bool{}
	for _, b := range bodies {
		if done[b.fn] {
			continue
		}
		done[b.fn] = true
		info := b.pkg.TypesInfo
		body := funcBody(b.fn)
		// configuration and Generate-time functions are not evaluation code even if they are called from a built-in table
		if fd, ok := b.fn.(*ast.FuncDecl); ok {
			switch fd.Name.Name {
			case "GetParser", "Generate", "GenerateWithMap", "GenerateFunc", "GenerateFromString", "generateIntern", "CreateAst", "Parse", "createClosureLiteralFunc", "genFuncList", "genCodeMap", "GenerateCustom", "Optimize":
				continue // compile time (reached through the debug print of the optimizer)
			}
		}
		k := 0
		inspectNoLit(body, func(x ast.Node) bool {
			var targets []ast.Expr
			switch t := x.(type) {
			case *ast.AssignStmt:
				for _, l := range t.Lhs {
					if id, ok := l.(*ast.Ident); ok && t.Tok == token.DEFINE && info.Defs[id] != nil {
						continue
					}
					targets = append(targets, l)
				}
			case *ast.IncDecStmt:
				targets = append(targets, t.X)
			}
			for _, l := range targets {
				l = ast.Unparen(l)
				root := rootIdent(l)
				if root == nil || root.Name == "_" {
					continue
				}
				obj, ok := info.ObjectOf(root).(*types.Var)
				if !ok {
					continue
				}
				nStores++
				key := func(what string) string {
					k++
					return fmt.Sprintf("%s#%s[%d]:%s", b.name, what, k, nodeStr(c.Fset, l))
				}
				// package level variable
				if obj.Pkg() != nil && obj.Parent() == obj.Pkg().Scope() {
					c.Violation(key("global-store"), l.Pos(), "code that runs during an evaluation writes the package level variable %s: the value survives the evaluation and is shared by all evaluations and all generators", root.Name)
					continue
				}
				if _, isIdent := l.(*ast.Ident); isIdent {
					continue // rebinding a local / captured variable: captured ones are covered by R10.1a/b
				}
				// stores through a long lived object
				t := obj.Type()
				if configTypes(t) {
					c.Violation(key("generator-store"), l.Pos(), "code that runs during an evaluation stores into %s, a field of the generator/parser: state of one evaluation leaks into all later ones", nodeStr(c.Fset, l))
					continue
				}
				if ptr, isPtr := t.Underlying().(*types.Pointer); isPtr && valueIface != nil && types.Implements(t, valueIface) {
					if isNamed(ptr.Elem(), modPath+"/value", "List") {
						continue // the cache of List: R06.2
					}
					// a value of the language reached through a pointer: is it an object this function just created?
					fresh := false
					if as, i := definingAssign(info, b.fn, obj); as != nil && len(as.Rhs) == len(as.Lhs) {
						if u, ok := ast.Unparen(as.Rhs[i]).(*ast.UnaryExpr); ok && u.Op == token.AND {
							fresh = true
						}
					}
					if !fresh {
						c.Violation(key("value-store"), l.Pos(), "a method modifies the language value it was called on (%s) in place: the value may be a constant shared by all evaluations of the function, so a later evaluation sees the modification", nodeStr(c.Fset, l))
						continue
					}
				}
			}
			return true
		})
	}
	if nStores < 100 {
		c.Undecided("value#stores", token.NoPos, "only %d stores examined", nStores)
		return
	}
	c.OK("value#evaluation-effects", token.NoPos, "%d function bodies reachable from evaluation entry points, %d stores examined: none targets a package level variable, a field of the generator/parser, or a language value reached through a pointer (other than the mutex protected List cache)", len(done), nStores)
}

// ---------------------------------------------------------------------------
// R10.2 every evaluation gets its own stack; long lived stacks are not used by evaluation code

func ruleR102(c *Ctx) {
	a := c.genAnchors()
	if len(a.missing) > 0 {
		c.Undecided(strings.Join(a.missing, ","), token.NoPos, "anchors not found")
		return
	}
	info := a.fg.TypesInfo
	newEmpty := LookupFunc(a.fg, "NewEmptyStack")
	// Func.Eval
	key := "funcGen.Func.Eval#fresh-stack"
	newStack := LookupFunc(a.fg, "NewStack")
	if fd := c.FuncDecl(a.fg, "Func", "Eval"); fd != nil && newEmpty != nil {
		// the stack handed to the generated function: f(<stack>) with <stack> = NewEmptyStack()[.Init(..)] / NewStack(..)
		var recvObj types.Object
		if fd.Recv != nil && len(fd.Recv.List) == 1 && len(fd.Recv.List[0].Names) == 1 {
			recvObj = info.Defs[fd.Recv.List[0].Names[0]]
		}
		nCalls, bad := 0, ""
		var originOK func(e ast.Expr, depth int) bool
		originOK = func(e ast.Expr, depth int) bool {
			e = ast.Unparen(e)
			switch t := e.(type) {
			case *ast.CallExpr:
				if isCallTo(info, t, newEmpty) || (newStack != nil && isCallTo(info, t, newStack)) {
					return true
				}
				// a method of Stack that returns the (re-initialised) stack: NewEmptyStack().Init(args...)
				if sel, ok := ast.Unparen(t.Fun).(*ast.SelectorExpr); ok && a.isStack(info.TypeOf(sel.X)) && a.isStack(info.TypeOf(t)) {
					return originOK(sel.X, depth)
				}
			case *ast.Ident:
				if depth < 3 {
					if obj := info.ObjectOf(t); obj != nil && countAssignments(info, fd.Body, obj) == 1 {
						if as, i := definingAssign(info, fd, obj); as != nil && len(as.Lhs) == len(as.Rhs) {
							return originOK(as.Rhs[i], depth+1)
						}
					}
				}
			}
			return false
		}
		ast.Inspect(fd.Body, func(n ast.Node) bool {
			call, isCall := n.(*ast.CallExpr)
			if !isCall || len(call.Args) != 1 {
				return true
			}
			if id, ok := ast.Unparen(call.Fun).(*ast.Ident); ok && recvObj != nil && info.ObjectOf(id) == recvObj {
				nCalls++
				if !originOK(call.Args[0], 0) {
					bad = nodeStr(c.Fset, call.Args[0])
				}
			}
			return true
		})
		switch {
		case nCalls == 0:
			c.Undecided(key, fd.Pos(), "the call of the generated function was not found in Func.Eval")
		case bad != "":
			c.Violation(key, fd.Pos(), "Func.Eval runs the generated function on %s, which is not a stack created by NewEmptyStack/NewStack in this call: storage that other evaluations have used (or are using) becomes visible, an evaluation can read values it never wrote", bad)
		default:
			c.OK(key, fd.Pos(), "every call of Eval creates its own value stack with NewEmptyStack/NewStack")
		}
	} else {
		c.Undecided(key, token.NoPos, "Func.Eval not found")
	}
	// stacks are assembled only by the constructors: no Stack/stackStorage literal elsewhere
	{
		allowed := map[string]bool{"funcGen.NewEmptyStack": true, "funcGen.NewStack": true, "funcGen.Stack.CreateFrame": true}
		nLit := 0
		for _, pkg := range c.RepoPkgs {
			pinfo := pkg.TypesInfo
			for _, f := range pkg.Syntax {
				ast.Inspect(f, func(x ast.Node) bool {
					cl, ok := x.(*ast.CompositeLit)
					if !ok {
						return true
					}
					t := pinfo.TypeOf(cl)
					if !a.isStack(t) && !isNamed(t, modPath+"/funcGen", "stackStorage") {
						return true
					}
					fd := c.EnclosingDecl(cl)
					if fd == nil {
						return true
					}
					nLit++
					name := declName(pkg, fd)
					k := fmt.Sprintf("%s#stack-literal[%d]", name, ordinalIn(fd, cl, func(y ast.Node) bool {
						c2, ok := y.(*ast.CompositeLit)
						return ok && (a.isStack(pinfo.TypeOf(c2)) || isNamed(pinfo.TypeOf(c2), modPath+"/funcGen", "stackStorage"))
					}))
					// a private helper of the constructors: every use of it is a call inside a constructor or a method of Stack
					helperOfCtors := false
					if !allowed[name] && !fd.Name.IsExported() && fd.Recv == nil {
						obj := pinfo.Defs[fd.Name]
						uses, ok2 := 0, true
						for _, f2 := range pkg.Syntax {
							ast.Inspect(f2, func(y ast.Node) bool {
								id, ok := y.(*ast.Ident)
								if !ok || pinfo.Uses[id] != obj {
									return true
								}
								uses++
								var p ast.Node = id
								if ix, ok := c.Parent(p).(*ast.IndexExpr); ok && ix.X == ast.Expr(id) {
									p = ix
								}
								call, isCall := c.Parent(p).(*ast.CallExpr)
								if !isCall || ast.Unparen(call.Fun) != p.(ast.Expr) {
									ok2 = false
									return true
								}
								ed := c.EnclosingDecl(id)
								if ed == nil {
									ok2 = false
									return true
								}
								if allowed[declName(pkg, ed)] {
									return true
								}
								if ed.Recv != nil && recvTypeName(ed.Recv.List[0].Type) == "Stack" {
									return true
								}
								ok2 = false
								return true
							})
						}
						helperOfCtors = uses > 0 && ok2
					}
					if allowed[name] {
						c.OK(k, cl.Pos(), "stack constructor")
					} else if helperOfCtors {
						c.OK(k, cl.Pos(), "private helper that is only called by the stack constructors and methods of Stack")
					} else {
						c.Violation(k, cl.Pos(), "a value stack is assembled outside the stack constructors: its storage can be shared with other evaluations")
					}
					return true
				})
			}
		}
		if nLit < 3 {
			c.Undecided("funcGen#stack-literals", token.NoPos, "only %d stack literals found", nLit)
		}
	}
	// Stack typed fields of long lived objects may be used at Generate time only
	n := 0
	for _, b := range c.evalReach() {
		binfo := b.pkg.TypesInfo
		if fd, ok := b.fn.(*ast.FuncDecl); ok {
			if fd.Name.Name == "Optimize" || fd.Name.Name == "GetParser" {
				continue
			}
		}
		inspectNoLit(funcBody(b.fn), func(x ast.Node) bool {
			sel, ok := x.(*ast.SelectorExpr)
			if !ok || !a.isStack(binfo.TypeOf(sel)) {
				return true
			}
			s, ok := binfo.Selections[sel]
			if !ok || s.Kind() != types.FieldVal {
				return true
			}
			owner := binfo.TypeOf(sel.X)
			longLived := isNamed(owner, modPath+"/funcGen", "FunctionGenerator") || isNamed(owner, modPath+"/value", "FunctionGenerator") || isNamed(owner, modPath+"/funcGen", "optimizer")
			if !longLived {
				return true
			}
			n++
			c.Violation(fmt.Sprintf("%s#shared-stack:%s", b.name, nodeStr(c.Fset, sel)), sel.Pos(), "evaluation code uses the value stack %s that is owned by the generator: nested and concurrent evaluations push their closure arguments on the same slots and overwrite each other", nodeStr(c.Fset, sel))
			return true
		})
	}
	if n == 0 {
		c.OK("funcGen#generator-owned-stacks", token.NoPos, "no code reachable from evaluation uses a value stack stored in the generator or optimizer (the optimizer's scratch stack is used at Generate time only)")
	}
}

// ---------------------------------------------------------------------------
// R10.1d closure values built by built-ins keep no mutable state.
//
// A function literal that becomes the Func of a funcGen.Function / value.Closure
// literal *inside code that runs during an evaluation* is a closure value of
// the language created by a built-in (createLowPass, a memoizer, ...). It may
// be called any number of times, from parallel map/accept workers and multiUse
// consumers concurrently, and it may outlive the evaluation inside a constant.
// A store from its body into a variable captured from the enclosing built-in
// (assignment, map or slice element store, ++) is state shared by all those
// calls: results depend on the call history, concurrent calls race, and a Go
// map written concurrently is a fatal runtime error that no recover catches.

func ruleR101closureValues(c *Ctx) {
	a := c.genAnchors()
	if len(a.missing) > 0 {
		c.Undecided(strings.Join(a.missing, ","), token.NoPos, "anchors not found")
		return
	}
	nLit, nStores := 0, 0
	for _, pkg := range evalPkgs(c) {
		info := pkg.TypesInfo
		for _, f := range pkg.Syntax {
			ast.Inspect(f, func(x ast.Node) bool {
				cl, ok := x.(*ast.CompositeLit)
				if !ok {
					return true
				}
				nm := namedOf(info.TypeOf(cl))
				if nm == nil || !(nm.Obj() == a.funcType || (nm.Obj().Name() == "Closure" && strings.HasSuffix(nm.Obj().Pkg().Path(), "/value"))) {
					return true
				}
				var lit *ast.FuncLit
				for _, el := range cl.Elts {
					if kv, ok := el.(*ast.KeyValueExpr); ok {
						if k, ok := kv.Key.(*ast.Ident); ok && k.Name == "Func" {
							lit, _ = ast.Unparen(kv.Value).(*ast.FuncLit)
						}
					}
				}
				if lit == nil {
					return true
				}
				// created during an evaluation: some enclosing function has a value stack parameter
				var host ast.Node
				for q := c.EnclosingFunc(cl); q != nil; q = c.EnclosingFunc(q) {
					var ft *ast.FuncType
					switch t := q.(type) {
					case *ast.FuncLit:
						ft = t.Type
					case *ast.FuncDecl:
						ft = t.Type
					}
					if ft != nil && ft.Params != nil {
						for _, p := range ft.Params.List {
							if a.isStack(info.TypeOf(p.Type)) {
								host = q
							}
						}
					}
					if host != nil {
						break
					}
				}
				if host == nil {
					return true // built at set-up time (a static function of the generator): one instance per generator, R10.1c
				}
				nLit++
				fname := c.FuncName(lit) + litSuffix(c, lit)
				k := 0
				inspectNoLit(lit.Body, func(y ast.Node) bool {
					var targets []ast.Expr
					switch t := y.(type) {
					case *ast.AssignStmt:
						for _, l := range t.Lhs {
							if id, ok := l.(*ast.Ident); ok && t.Tok == token.DEFINE && info.Defs[id] != nil {
								continue
							}
							targets = append(targets, l)
						}
					case *ast.IncDecStmt:
						targets = append(targets, t.X)
					}
					for _, l := range targets {
						root := rootIdent(ast.Unparen(l))
						if root == nil || root.Name == "_" {
							continue
						}
						obj, ok := info.ObjectOf(root).(*types.Var)
						if !ok || obj.IsField() {
							continue
						}
						if obj.Pos() >= lit.Pos() && obj.Pos() <= lit.End() {
							continue // a variable of the closure body itself
						}
						if obj.Pkg() != nil && obj.Parent() == obj.Pkg().Scope() {
							continue // package level: R10.1c
						}
						nStores++
						k++
						key := fmt.Sprintf("%s#closure-value-state[%d]:%s", fname, k, nodeStr(c.Fset, l))
						c.Violation(key, l.Pos(), "the closure value built by this built-in stores into %s, a variable captured from the enclosing built-in: the state is shared by all calls of the closure - its results depend on the call history, calls from parallel map/accept workers or multiUse consumers race, and a Go map written concurrently is a fatal runtime error that no recover catches", nodeStr(c.Fset, l))
					}
					return true
				})
				return true
			})
		}
	}
	c.OK("value#closure-values-built-during-evaluation", token.NoPos, "%d closure values are built by built-ins during an evaluation; %d stores into captured variables", nLit, nStores)
}

// ---------------------------------------------------------------------------
// R10.2b a stack never adopts a slice it does not own.
//
// NewStack(v...) keeps the slice it is given as the storage of the stack;
// pushes append to it. If the slice is forwarded from somewhere else
// (NewStack(args...) with args a parameter), the storage of the evaluation is
// the caller's memory: a push writes into the caller's slice behind its
// length whenever it has spare capacity (a row table[3*i:3*i+3] of a larger
// table), and two evaluations that are given the same slice share their
// let-slots. The forwarded slice has to be one that the calling function
// allocated itself (make, a literal, the result of a helper of the package
// that returns a slice it allocated).

func ruleR102b(c *Ctx) {
	a := c.genAnchors()
	if len(a.missing) > 0 {
		c.Undecided(strings.Join(a.missing, ","), token.NoPos, "anchors not found")
		return
	}
	newStack := LookupFunc(a.fg, "NewStack")
	if newStack == nil {
		c.Undecided("funcGen.NewStack", token.NoPos, "not found")
		return
	}
	// does NewStack keep its argument? (storage: ...{data: v})
	keeps := false
	if fd := c.FuncDecl(a.fg, "", "NewStack"); fd != nil && fd.Type.Params != nil && len(fd.Type.Params.List) == 1 && len(fd.Type.Params.List[0].Names) == 1 {
		pobj := a.fg.TypesInfo.Defs[fd.Type.Params.List[0].Names[0]]
		ast.Inspect(fd.Body, func(x ast.Node) bool {
			if kv, ok := x.(*ast.KeyValueExpr); ok {
				if id, ok := ast.Unparen(kv.Value).(*ast.Ident); ok && a.fg.TypesInfo.ObjectOf(id) == pobj {
					keeps = true
				}
			}
			return true
		})
	}
	if !keeps {
		c.OK("funcGen.NewStack#adopts-argument", token.NoPos, "NewStack does not keep the slice it is given")
		return
	}
	var freshResult func(pkg *packages.Package, fn *types.Func, depth int) bool
	freshLocal := func(pkg *packages.Package, root ast.Node, obj types.Object, depth int) bool {
		info := pkg.TypesInfo
		fresh, any := true, false
		ast.Inspect(root, func(x ast.Node) bool {
			var lhs, rhs []ast.Expr
			switch t := x.(type) {
			case *ast.AssignStmt:
				lhs, rhs = t.Lhs, t.Rhs
			case *ast.ValueSpec:
				for _, nm := range t.Names {
					lhs = append(lhs, nm)
				}
				rhs = t.Values
				if len(rhs) == 0 {
					for _, nm := range t.Names {
						if info.Defs[nm] == obj {
							any = true // var x []V
						}
					}
				}
			}
			for i, l := range lhs {
				id, ok := l.(*ast.Ident)
				if !ok || info.ObjectOf(id) != obj {
					continue
				}
				var r ast.Expr
				if len(rhs) == len(lhs) {
					r = rhs[i]
				} else if len(rhs) == 1 {
					r = rhs[0]
				}
				if r == nil {
					continue
				}
				any = true
				switch t := ast.Unparen(r).(type) {
				case *ast.CompositeLit:
				case *ast.CallExpr:
					if fid, ok := ast.Unparen(t.Fun).(*ast.Ident); ok {
						if _, isB := info.Uses[fid].(*types.Builtin); isB {
							if fid.Name == "make" {
								continue
							}
							if fid.Name == "append" && len(t.Args) > 0 {
								if aid, ok := ast.Unparen(t.Args[0]).(*ast.Ident); ok && info.ObjectOf(aid) == obj {
									continue
								}
							}
						}
					}
					if cal := Callee(info, t); cal != nil && cal.Pkg() == pkg.Types && depth < 2 && freshResult(pkg, cal, depth+1) {
						continue
					}
					fresh = false
				default:
					fresh = false
				}
			}
			return true
		})
		return fresh && any
	}
	freshResult = func(pkg *packages.Package, fn *types.Func, depth int) bool {
		fd := findFuncDecl(pkg, fn)
		if fd == nil || fd.Body == nil {
			return false
		}
		ok, n := true, 0
		inspectNoLit(fd.Body, func(x ast.Node) bool {
			r, isRet := x.(*ast.ReturnStmt)
			if !isRet || len(r.Results) == 0 {
				return true
			}
			e := ast.Unparen(r.Results[0])
			if id, isID := e.(*ast.Ident); isID {
				if id.Name == "nil" {
					return true
				}
				n++
				if !freshLocal(pkg, fd, pkg.TypesInfo.ObjectOf(id), depth) {
					ok = false
				}
				return true
			}
			n++
			ok = false
			return true
		})
		return ok && n > 0
	}
	n := 0
	for _, pkg := range c.RepoPkgs {
		if strings.Contains(pkg.PkgPath, "/example") || strings.HasSuffix(pkg.PkgPath, "/gen") {
			continue
		}
		info := pkg.TypesInfo
		forEachFuncBody([]*packages.Package{pkg}, func(pkg *packages.Package, fn ast.Node, body *ast.BlockStmt) {
			k := 0
			inspectNoLit(body, func(x ast.Node) bool {
				call, ok := x.(*ast.CallExpr)
				if !ok || !isCallTo(info, call, newStack) || !call.Ellipsis.IsValid() || len(call.Args) != 1 {
					return true
				}
				n++
				k++
				key := fmt.Sprintf("%s#NewStack-adopts[%d]:%s", c.FuncName(fn)+litSuffix(c, fn), k, nodeStr(c.Fset, call.Args[0]))
				id, ok := ast.Unparen(call.Args[0]).(*ast.Ident)
				if !ok {
					c.Undecided(key, call.Pos(), "the slice handed to NewStack is not a variable")
					return true
				}
				obj := info.ObjectOf(id)
				// a parameter of an enclosing function?
				isParam := false
				for q := fn; q != nil; q = c.EnclosingFunc(q) {
					var ft *ast.FuncType
					switch t := q.(type) {
					case *ast.FuncDecl:
						ft = t.Type
					case *ast.FuncLit:
						ft = t.Type
					}
					if ft != nil && ft.Params != nil {
						for _, p := range ft.Params.List {
							for _, nm := range p.Names {
								if info.Defs[nm] == obj {
									isParam = true
								}
							}
						}
					}
				}
				var root ast.Node = fn
				if d := c.EnclosingDecl(call); d != nil {
					root = d
				}
				// a parameter of a private helper: the obligation moves to the call sites of the helper
				if isParam {
					if hd, ok := fn.(*ast.FuncDecl); ok && !hd.Name.IsExported() && hd.Type.Params != nil {
						pidx, pk := -1, 0
						for _, p := range hd.Type.Params.List {
							for _, nm := range p.Names {
								if info.Defs[nm] == obj {
									pidx = pk
								}
								pk++
							}
						}
						hobj := info.Defs[hd.Name]
						sites, allFresh := 0, true
						if pidx >= 0 {
							for _, f2 := range pkg.Syntax {
								ast.Inspect(f2, func(y ast.Node) bool {
									cc, ok := y.(*ast.CallExpr)
									if !ok || pidx >= len(cc.Args) {
										return true
									}
									if cal := Callee(info, cc); cal == nil || types.Object(cal) != hobj && cal.Origin() != hobj {
										return true
									}
									sites++
									aid, ok := ast.Unparen(cc.Args[pidx]).(*ast.Ident)
									if !ok {
										allFresh = false
										return true
									}
									var croot ast.Node = c.EnclosingFunc(cc)
									if d := c.EnclosingDecl(cc); d != nil {
										croot = d
									}
									if croot == nil || !freshLocal(pkg, croot, info.ObjectOf(aid), 0) {
										allFresh = false
									}
									return true
								})
							}
						}
						if sites > 0 && allFresh {
							c.OK(key, call.Pos(), "the adopted slice is a parameter of a private helper; every call site of the helper passes a slice it allocated itself")
							return true
						}
					}
				}
				switch {
				case isParam:
					c.Violation(key, call.Pos(), "NewStack(%s...) makes the slice %s, a parameter, the storage of the stack: every push (let, call arguments) appends to the caller's slice and writes into its memory behind the passed arguments whenever the slice has spare capacity; evaluations that are given the same slice share their slots", id.Name, id.Name)
				case freshLocal(pkg, root, obj, 0):
					c.OK(key, call.Pos(), "the stack adopts a slice that this function allocated itself")
				default:
					c.Undecided(key, call.Pos(), "origin of the slice %s handed to NewStack not understood", id.Name)
				}
				return true
			})
		})
	}
	if n == 0 {
		c.Note("funcGen.NewStack#adopting-calls", token.NoPos, "no call NewStack(x...) found")
	}
}
