package main

import (
	"fmt"
	"go/ast"
	"go/constant"
	"go/token"
	"go/types"
	"strings"

	"golang.org/x/tools/go/packages"
)

// hasGuard reports whether on every path to n a leaf condition accepted by
// pred holds with the given value.
func (c *Ctx) hasGuard(n ast.Node, val bool, pred func(ast.Expr) bool) bool {
	fn := c.EnclosingFunc(n)
	if fn == nil {
		return false
	}
	g := c.CFG(fn)
	if g == nil {
		return false
	}
	for _, gd := range g.Guards(n) {
		if gd.Val == val && pred(ast.Unparen(gd.Cond)) {
			return true
		}
	}
	return false
}

// hasFlagGuard reports whether n is reached only under <desc>.<flag> being
// true. desc is the descriptor expression the flag has to belong to (nil: any
// expression of the named descriptor type). If desc is a parameter of the
// enclosing declaration (a private helper the code was extracted into), the
// obligation moves to the call sites: every call of the helper in its package
// has to be guarded by the flag of the descriptor it passes (two levels).
func (c *Ctx) hasFlagGuard(pkg *packages.Package, n ast.Node, desc ast.Expr, descType, flag string, depth int) bool {
	info := pkg.TypesInfo
	dk := ""
	if desc != nil {
		k, ok := exprKey(info, desc)
		if !ok {
			return false
		}
		dk = k
	}
	local := false
	for _, gd := range c.GuardsDeep(n) {
		if !gd.Val {
			continue
		}
		s, ok := ast.Unparen(gd.Cond).(*ast.SelectorExpr)
		if !ok || s.Sel.Name != flag {
			continue
		}
		if desc == nil {
			if isNamed(info.TypeOf(s.X), modPath+"/funcGen", descType) {
				local = true
			}
		} else if k, ok := exprKey(info, s.X); ok && k == dk {
			local = true
		}
	}
	if local {
		return true
	}
	if depth >= 2 {
		return false
	}
	fd := c.EnclosingDecl(n)
	if fd == nil || fd.Type.Params == nil {
		return false
	}
	// which parameter carries the descriptor?
	pidx := -1
	i := 0
	for _, fl := range fd.Type.Params.List {
		for _, nm := range fl.Names {
			obj := info.Defs[nm]
			if obj != nil {
				if desc != nil {
					if id, ok := ast.Unparen(desc).(*ast.Ident); ok && info.ObjectOf(id) == obj {
						pidx = i
					}
				} else if isNamed(obj.Type(), modPath+"/funcGen", descType) {
					pidx = i
				}
			}
			i++
		}
	}
	if pidx < 0 {
		return false
	}
	if id, ok := ast.Unparen(desc).(*ast.Ident); desc != nil && ok && countAssignments(info, fd.Body, info.ObjectOf(id)) > 0 {
		return false // the parameter is reassigned inside the helper
	}
	fobj, _ := info.Defs[fd.Name].(*types.Func)
	if fobj == nil {
		return false
	}
	sites := 0
	all := true
	for _, f := range pkg.Syntax {
		ast.Inspect(f, func(x ast.Node) bool {
			call, ok := x.(*ast.CallExpr)
			if !ok {
				return true
			}
			if cal := Callee(info, call); cal == nil || cal.Origin() != fobj.Origin() || pidx >= len(call.Args) {
				return true
			}
			sites++
			if !c.hasFlagGuard(pkg, call, call.Args[pidx], descType, flag, depth+1) {
				all = false
			}
			return true
		})
	}
	return sites > 0 && all
}

// GuardsDeep returns the branch facts known at n, including those known at the
// position of every enclosing function literal in its parent function (the
// literal is created on that path; captured variables are assumed not to be
// reassigned afterwards).
func (c *Ctx) GuardsDeep(n ast.Node) []Guard {
	var res []Guard
	// facts from short circuit evaluation inside the expression n is part of: in A && B, B runs only if A is true;
	// in A || B only if A is false
	for cur := n; cur != nil; {
		p := c.Parent(cur)
		be, ok := p.(*ast.BinaryExpr)
		if !ok {
			if _, isParen := p.(*ast.ParenExpr); isParen {
				cur = p
				continue
			}
			if _, isCall := p.(*ast.CallExpr); isCall {
				cur = p
				continue
			}
			if _, isUnary := p.(*ast.UnaryExpr); isUnary {
				cur = p
				continue
			}
			if _, isSel := p.(*ast.SelectorExpr); isSel {
				cur = p
				continue
			}
			break
		}
		if (be.Op == token.LAND || be.Op == token.LOR) && be.Y == cur {
			expandGuard(be.X, be.Op == token.LAND, &res)
		}
		cur = p
	}
	for cur := n; cur != nil; {
		fn := c.EnclosingFunc(cur)
		if fn == nil {
			break
		}
		if g := c.CFG(fn); g != nil {
			res = append(res, g.Guards(cur)...)
		}
		if _, isLit := fn.(*ast.FuncLit); !isLit {
			break
		}
		cur = fn
	}
	return res
}

// optimizerMethods returns the methods of all types in funcGen that implement
// parser2.Optimizer.
func (c *Ctx) optimizerMethods() ([]*ast.FuncDecl, *packages.Package) {
	fg := c.Pkg("funcGen")
	root := c.Pkg("")
	if fg == nil || root == nil {
		return nil, nil
	}
	optIface := LookupType(root, "Optimizer")
	if optIface == nil {
		return nil, nil
	}
	var res []*ast.FuncDecl
	for _, f := range fg.Syntax {
		for _, d := range f.Decls {
			fd, ok := d.(*ast.FuncDecl)
			if !ok || fd.Recv == nil || fd.Body == nil {
				continue
			}
			tn := LookupType(fg, recvTypeName(fd.Recv.List[0].Type))
			if tn == nil {
				continue
			}
			// a type implements Optimizer if it has a method Optimize(AST) AST
			named, _ := tn.Type().(*types.Named)
			if named == nil {
				continue
			}
			has := false
			for i := 0; i < named.NumMethods(); i++ {
				m := named.Method(i)
				if m.Name() != "Optimize" {
					continue
				}
				sig := m.Type().(*types.Signature)
				if sig.Params().Len() == 1 && sig.Results().Len() == 1 && isNamed(sig.Params().At(0).Type(), modPath, "AST") && isNamed(sig.Results().At(0).Type(), modPath, "AST") {
					has = true
				}
			}
			if has {
				res = append(res, fd)
			}
		}
	}
	// plain functions (and methods of other private types) of the package that the optimizer methods call: code that
	// was extracted from Optimize is optimizer code as well. The generator (FunctionGenerator methods) is not.
	info := fg.TypesInfo
	seen := map[*ast.FuncDecl]bool{}
	for _, fd := range res {
		seen[fd] = true
	}
	for i := 0; i < len(res) && i < 64; i++ {
		ast.Inspect(res[i].Body, func(x ast.Node) bool {
			call, ok := x.(*ast.CallExpr)
			if !ok {
				return true
			}
			cal := Callee(info, call)
			if cal == nil || cal.Pkg() != fg.Types {
				return true
			}
			if sig := cal.Type().(*types.Signature); sig.Recv() != nil && isNamed(sig.Recv().Type(), modPath+"/funcGen", "FunctionGenerator") {
				return true
			}
			if d := findFuncDecl(fg, cal); d != nil && d.Body != nil && !seen[d] {
				// only code that works on AST nodes
				usesAST := false
				if d.Type.Params != nil {
					for _, f := range d.Type.Params.List {
						if t := info.TypeOf(f.Type); t != nil && (isNamed(t, modPath, "AST") || strings.Contains(t.String(), modPath+".")) {
							usesAST = true
						}
					}
				}
				if usesAST {
					seen[d] = true
					res = append(res, d)
				}
			}
			return true
		})
	}
	return res, fg
}

// ---------------------------------------------------------------------------
// R02.1 purity guarded folding

func ruleR021(c *Ctx) {
	decls, fg := c.optimizerMethods()
	if len(decls) == 0 {
		c.Undecided("funcGen:Optimizer-implementations", token.NoPos, "no type implementing parser2.Optimizer found in funcGen")
		return
	}
	info := fg.TypesInfo
	a := c.genAnchors()
	for _, fd := range decls {
		fname := declName(fg, fd)
		n := 0
		ast.Inspect(fd.Body, func(x ast.Node) bool {
			call, ok := x.(*ast.CallExpr)
			if !ok {
				return true
			}
			// the implementation handed to a helper that runs it: foldCall(ast, fu.Func, args, line)
			if d := funcValueExec(c, fg, call); d != nil {
				n++
				key := fmt.Sprintf("%s#fold-exec[%d]:%s", fname, n, nodeStr(c.Fset, d)+".Func")
				if c.hasFlagGuard(fg, call, d, "", "IsPure", 0) {
					c.OK(key, call.Pos(), "the function implementation is handed to a helper that runs it at Generate time only under %s.IsPure", nodeStr(c.Fset, d))
				} else {
					c.Violation(key, call.Pos(), "the optimizer hands the function implementation %s.Func to a helper that runs it at Generate time on a path that is not guarded by %s.IsPure: an impure function would run during Generate and its result be frozen into the function", nodeStr(c.Fset, d), nodeStr(c.Fset, d))
				}
				return true
			}
			sel, ok := ast.Unparen(call.Fun).(*ast.SelectorExpr)
			if !ok {
				return true
			}
			// X.Impl.Calc(...) on an Operator, X.Func(...) on a Function
			var desc ast.Expr
			kind := ""
			if sel.Sel.Name == "Calc" {
				if s2, ok := ast.Unparen(sel.X).(*ast.SelectorExpr); ok && s2.Sel.Name == "Impl" {
					if isNamed(info.TypeOf(s2.X), modPath+"/funcGen", "Operator") {
						desc, kind = s2.X, "operator"
					} else if isNamed(info.TypeOf(s2.X), modPath+"/funcGen", "UnaryOperator") {
						c.Note(fname+"#unary-fold", call.Pos(), "unary operators have no purity flag; folding them is unconditional (assumption: unary operators are pure)")
						return true
					}
				}
			} else if sel.Sel.Name == "Func" && isNamed(info.TypeOf(sel.X), modPath+"/funcGen", "Function") {
				desc, kind = sel.X, "function"
			}
			if desc == nil {
				return true
			}
			n++
			key := fmt.Sprintf("%s#fold-exec[%d]:%s", fname, n, nodeStr(c.Fset, call.Fun))
			dk, okk := exprKey(info, desc)
			if !okk {
				c.Undecided(key, call.Pos(), "descriptor %s is not a variable", nodeStr(c.Fset, desc))
				return true
			}
			_ = dk
			guarded := c.hasFlagGuard(fg, call, desc, "", "IsPure", 0)
			if guarded {
				c.OK(key, call.Pos(), "the %s implementation is executed at Generate time only under %s.IsPure", kind, nodeStr(c.Fset, desc))
			} else {
				c.Violation(key, call.Pos(), "the optimizer executes the %s implementation %s at Generate time on a path that is not guarded by %s.IsPure: an impure %s would run during Generate and its result be frozen into the function", kind, nodeStr(c.Fset, call.Fun), nodeStr(c.Fset, desc), kind)
			}
			return true
		})
		// Function literals built by the optimizer that claim purity
		ast.Inspect(fd.Body, func(x ast.Node) bool {
			cl, ok := x.(*ast.CompositeLit)
			if !ok || a.funcType == nil || namedOf(info.TypeOf(cl)) == nil || namedOf(info.TypeOf(cl)).Obj() != a.funcType {
				return true
			}
			var funcVal, pureVal ast.Expr
			for _, el := range cl.Elts {
				if kv, ok := el.(*ast.KeyValueExpr); ok {
					if k, ok := kv.Key.(*ast.Ident); ok {
						switch k.Name {
						case "Func":
							funcVal = kv.Value
						case "IsPure":
							pureVal = kv.Value
						}
					}
				}
			}
			if pureVal == nil {
				return true
			}
			key := fmt.Sprintf("%s#Function{IsPure}", fname)
			tv := info.Types[pureVal]
			if tv.Value == nil || !constant.BoolVal(tv.Value) {
				if tv.Value != nil {
					return true // IsPure: false
				}
			}
			fid, ok := ast.Unparen(funcVal).(*ast.Ident)
			if !ok {
				c.Undecided(key, cl.Pos(), "Func of a Function literal claiming purity is not a variable")
				return true
			}
			as, idx := definingAssign(info, fd, info.ObjectOf(fid))
			if as == nil || idx != 0 || len(as.Lhs) < 2 {
				c.Undecided(key, cl.Pos(), "definition of %s not found", fid.Name)
				return true
			}
			pid, ok := as.Lhs[1].(*ast.Ident)
			if !ok {
				c.Violation(key, cl.Pos(), "purity result of generating %s is discarded", fid.Name)
				return true
			}
			pobj := info.ObjectOf(pid)
			isThatVar := func(e ast.Expr) bool {
				id, ok := e.(*ast.Ident)
				return ok && info.ObjectOf(id) == pobj
			}
			constTrue := tv.Value != nil
			if constTrue && c.hasGuard(cl, true, isThatVar) || !constTrue && isThatVar(ast.Unparen(pureVal)) {
				c.OK(key, cl.Pos(), "the constant closure is declared pure only when its body was generated pure (%s)", pid.Name)
			} else {
				c.Violation(key, cl.Pos(), "the optimizer turns a closure literal into a constant declared IsPure without the purity result %s of its body being true: applications of the closure to constants are then folded even if the body calls impure functions", pid.Name)
			}
			return true
		})
	}
}

// ---------------------------------------------------------------------------
// R02.2 regroup guard

func ruleR022(c *Ctx) {
	decls, fg := c.optimizerMethods()
	if len(decls) == 0 {
		c.Undecided("funcGen:Optimizer-implementations", token.NoPos, "no type implementing parser2.Optimizer found in funcGen")
		return
	}
	info := fg.TypesInfo
	for _, fd := range decls {
		fname := declName(fg, fd)
		n := 0
		ast.Inspect(fd.Body, func(x ast.Node) bool {
			cl, ok := x.(*ast.CompositeLit)
			if !ok || !isNamed(info.TypeOf(cl), modPath, "Operate") {
				return true
			}
			n++
			key := fmt.Sprintf("%s#regroup[%d]", fname, n)
			comm := c.hasFlagGuard(fg, cl, nil, "Operator", "IsCommutative", 0)
			same := c.hasGuard(cl, true, func(e ast.Expr) bool {
				be, ok := e.(*ast.BinaryExpr)
				if !ok || be.Op != token.EQL {
					return false
				}
				sx, ok1 := ast.Unparen(be.X).(*ast.SelectorExpr)
				sy, ok2 := ast.Unparen(be.Y).(*ast.SelectorExpr)
				return ok1 && ok2 && sx.Sel.Name == "Operator" && sy.Sel.Name == "Operator" &&
					isNamed(info.TypeOf(sx.X), modPath, "Operate") && isNamed(info.TypeOf(sy.X), modPath, "Operate") &&
					nodeStr(c.Fset, sx.X) != nodeStr(c.Fset, sy.X)
			})
			// the rebuilt node keeps operator and priority of the original
			keeps := true
			for _, el := range cl.Elts {
				if kv, ok := el.(*ast.KeyValueExpr); ok {
					if k, ok := kv.Key.(*ast.Ident); ok && (k.Name == "Operator" || k.Name == "Priority") {
						if s, ok := ast.Unparen(kv.Value).(*ast.SelectorExpr); !ok || s.Sel.Name != k.Name {
							keeps = false
						}
					}
				}
			}
			switch {
			case comm && same && keeps:
				c.OK(key, cl.Pos(), "constants are regrouped only for a commutative operator and an inner node of the same operator")
			case !comm:
				c.Violation(key, cl.Pos(), "the optimizer regroups (c1 op x) op c2 without the IsCommutative guard: operands of a non commutative operator (string +, -, /) are reordered")
			case !same:
				c.Violation(key, cl.Pos(), "the optimizer regroups across different operators: the inner node is not checked to have the same operator")
			default:
				c.Violation(key, cl.Pos(), "the regrouped node does not keep operator/priority of the original")
			}
			return true
		})
		// regrouping in place: a store into an operand of an existing Operate node (n.A = .., n.B = .., or *p = .. with
		// p taken from &n.A / &n.B) merges a constant into the node n. That is only sound if n itself is a node of the same
		// (commutative) operator as the node being optimized: the test has to name n, not just the first node of a chain
		// the code walks down
		m := 0
		ast.Inspect(fd.Body, func(x ast.Node) bool {
			as, ok := x.(*ast.AssignStmt)
			if !ok || as.Tok != token.ASSIGN {
				return true
			}
			for _, l := range as.Lhs {
				var node ast.Expr // the Operate node that is modified
				switch t := ast.Unparen(l).(type) {
				case *ast.SelectorExpr:
					if (t.Sel.Name == "A" || t.Sel.Name == "B") && isNamed(info.TypeOf(t.X), modPath, "Operate") {
						node = t.X
					}
				case *ast.StarExpr:
					// *operand with operand ranging over []*AST{&n.A, &n.B} or assigned &n.A
					if id, ok := ast.Unparen(t.X).(*ast.Ident); ok {
						var srcs []ast.Expr
						if rs := rangeOver(c, info, id); rs != nil {
							if cl, ok := ast.Unparen(rs.X).(*ast.CompositeLit); ok {
								srcs = append(srcs, cl.Elts...)
							}
						}
						if v, ok := info.ObjectOf(id).(*types.Var); ok {
							if rhs, has := singleDefExpr[v]; has {
								srcs = append(srcs, rhs)
							}
						}
						for _, e := range srcs {
							if u, ok := ast.Unparen(e).(*ast.UnaryExpr); ok && u.Op == token.AND {
								if sel, ok := ast.Unparen(u.X).(*ast.SelectorExpr); ok && (sel.Sel.Name == "A" || sel.Sel.Name == "B") && isNamed(info.TypeOf(sel.X), modPath, "Operate") {
									node = sel.X
								}
							}
						}
					}
				}
				if node == nil {
					continue
				}
				m++
				key := fmt.Sprintf("%s#regroup-in-place[%d]", fname, m)
				nodeText := nodeStr(c.Fset, node)
				same := c.hasGuard(as, true, func(e ast.Expr) bool {
					be, ok := e.(*ast.BinaryExpr)
					if !ok || be.Op != token.EQL {
						return false
					}
					sx, ok1 := ast.Unparen(be.X).(*ast.SelectorExpr)
					sy, ok2 := ast.Unparen(be.Y).(*ast.SelectorExpr)
					if !ok1 || !ok2 || sx.Sel.Name != "Operator" || sy.Sel.Name != "Operator" {
						return false
					}
					a, b := nodeStr(c.Fset, sx.X), nodeStr(c.Fset, sy.X)
					return a != b && (a == nodeText || b == nodeText)
				})
				comm := c.hasFlagGuard(fg, as, nil, "Operator", "IsCommutative", 0)
				switch {
				case same && comm:
					c.OK(key, as.Pos(), "an operand of %s is replaced only under the tests that the operator is commutative and that %s has the same operator", nodeText, nodeText)
				case !comm:
					c.Violation(key, as.Pos(), "the optimizer replaces an operand of the existing node %s without the IsCommutative guard", nodeText)
				default:
					c.Violation(key, as.Pos(), "the optimizer merges a constant into an operand of the existing node %s, but no test on the way compares the operator of %s itself with the operator being optimized (a test of the first node of the chain does not cover the nodes below it): ((a*2)+b)+3 becomes (a*5)+b", nodeText, nodeText)
				}
			}
			return true
		})
	}
}

// ---------------------------------------------------------------------------
// R02.3 purity propagation in the generator

// conjuncts flattens a && chain.
func conjuncts(e ast.Expr, out *[]ast.Expr) {
	e = ast.Unparen(e)
	if be, ok := e.(*ast.BinaryExpr); ok && be.Op == token.LAND {
		conjuncts(be.X, out)
		conjuncts(be.Y, out)
		return
	}
	*out = append(*out, e)
}

func ruleR023(c *Ctx) {
	a := c.genAnchors()
	if len(a.missing) > 0 {
		c.Undecided(strings.Join(a.missing, ","), token.NoPos, "anchors not found")
		return
	}
	fwd := c.forwarders(a)
	// helpers that generate children and return (…code…, pure bool, err error) with more than one piece of code
	genHelpers := map[*types.Func]bool{}
	for _, gi := range c.generatorFuncs(a, fwd) {
		obj, _ := gi.pkg.TypesInfo.Defs[gi.decl.Name].(*types.Func)
		if obj == nil {
			continue
		}
		sig := obj.Type().(*types.Signature)
		if n := sig.Results().Len(); n > 3 && isErrorType(sig.Results().At(n-1).Type()) {
			if b, ok := sig.Results().At(n - 2).Type().Underlying().(*types.Basic); ok && b.Kind() == types.Bool {
				genHelpers[obj.Origin()] = true
			}
		}
	}
	for _, gi := range c.generatorFuncs(a, fwd) {
		info := gi.pkg.TypesInfo
		gname := declName(gi.pkg, gi.decl)
		// in any function that generates children (also helpers with another result shape): the purity result of one
		// child must not be overwritten by that of the next one before it was read (conjoined)
		{
			type psite struct {
				as  *ast.AssignStmt
				obj types.Object
			}
			var ps []psite
			inspectNoLit(gi.decl.Body, func(n ast.Node) bool {
				as, ok := n.(*ast.AssignStmt)
				if !ok || len(as.Rhs) != 1 || len(as.Lhs) != 3 {
					return true
				}
				call, ok := ast.Unparen(as.Rhs[0]).(*ast.CallExpr)
				if !ok {
					return true
				}
				cal := Callee(info, call)
				if cal == nil || !(cal == a.genFunc.Origin() || fwd[cal]) {
					return true
				}
				if pid, ok := as.Lhs[1].(*ast.Ident); ok && pid.Name != "_" {
					if o := info.ObjectOf(pid); o != nil {
						ps = append(ps, psite{as, o})
					}
				}
				return true
			})
			// the purity of a generated child has to count: it reaches a returned value of the function (directly or
			// through variables it is conjoined into) or it guards something. A helper that generates the body of a
			// closure and keeps the purity to itself (stores it into the closure value only) makes the literal look pure
			// to its caller: `func sample(n) numbers(n).map(i->tick()).sum()` becomes a constant function
			if len(ps) > 0 {
				reach := map[types.Object]bool{}
				inspectNoLit(gi.decl.Body, func(n ast.Node) bool {
					if r, ok := n.(*ast.ReturnStmt); ok {
						for _, e := range r.Results {
							if _, isLit := ast.Unparen(e).(*ast.FuncLit); isLit {
								continue
							}
							ast.Inspect(e, func(y ast.Node) bool {
								if _, isLit := y.(*ast.FuncLit); isLit {
									return false
								}
								if id, ok := y.(*ast.Ident); ok {
									if o := info.ObjectOf(id); o != nil {
										reach[o] = true
									}
								}
								return true
							})
						}
					}
					if ifs, ok := n.(*ast.IfStmt); ok {
						ast.Inspect(ifs.Cond, func(y ast.Node) bool {
							if id, ok := y.(*ast.Ident); ok {
								if o := info.ObjectOf(id); o != nil {
									reach[o] = true
								}
							}
							return true
						})
					}
					return true
				})
				for changed := true; changed; {
					changed = false
					inspectNoLit(gi.decl.Body, func(n ast.Node) bool {
						as, ok := n.(*ast.AssignStmt)
						if !ok || len(as.Lhs) != len(as.Rhs) {
							return true
						}
						for i, l := range as.Lhs {
							id, ok := l.(*ast.Ident)
							if !ok || !reach[info.ObjectOf(id)] {
								continue
							}
							ast.Inspect(as.Rhs[i], func(y ast.Node) bool {
								if _, isLit := y.(*ast.FuncLit); isLit {
									return false
								}
								if rid, ok := y.(*ast.Ident); ok {
									if o := info.ObjectOf(rid); o != nil && !reach[o] {
										reach[o] = true
										changed = true
									}
								}
								return true
							})
						}
						return true
					})
				}
				seenObj := map[types.Object]bool{}
				for _, p := range ps {
					if seenObj[p.obj] {
						continue
					}
					seenObj[p.obj] = true
					key := fmt.Sprintf("%s#purity-counts:%s", gname, p.obj.Name())
					if reach[p.obj] {
						c.OK(key, p.as.Pos(), "the purity of the generated child reaches a result of the function or guards a decision")
					} else {
						c.Violation(key, p.as.Pos(), "the purity result %s of generating %s neither reaches a result of %s nor guards a decision: the caller cannot conjoin it, so an expression that creates an impure closure looks pure, a function around it is folded into a constant, and calls of impure functions inside run while Generate runs instead of at every evaluation", p.obj.Name(), nodeStr(c.Fset, p.as.Lhs[0]), gi.decl.Name.Name)
					}
				}
			}
			gg := c.CFG(gi.decl)
			for i, first := range ps {
				for j, second := range ps {
					if i == j || first.obj != second.obj || first.as == second.as {
						continue
					}
					if enclosingLoop(c, first.as, gi.decl) != nil {
						continue // the loop form has its own clause below
					}
					reads := func(x ast.Node) bool {
						if x == ast.Node(second.as) {
							return false
						}
						return containsNodeDeep(x, func(y ast.Node) bool {
							id, ok := y.(*ast.Ident)
							if !ok || info.ObjectOf(id) != first.obj {
								return false
							}
							// a use, not the left hand side of an assignment
							if as, ok := c.Parent(id).(*ast.AssignStmt); ok {
								for _, l := range as.Lhs {
									if l == ast.Expr(id) {
										return false
									}
								}
							}
							return true
						})
					}
					if found, _ := gg.PathAvoiding(first.as, func(x ast.Node) bool { return x == ast.Node(second.as) }, reads); found {
						key := fmt.Sprintf("%s#purity-overwritten:%s", gname, first.obj.Name())
						c.Violation(key, second.as.Pos(), "the purity result of generating %s is stored in %s, and the next child generation (%s) stores its purity in the same variable before the first one was read: only the purity of the last child counts, an impure earlier sub expression makes the whole expression look pure", nodeStr(c.Fset, first.as.Lhs[0]), first.obj.Name(), nodeStr(c.Fset, second.as.Lhs[0]))
					}
				}
			}
		}
		// only functions that return (ParserFunc|collection, bool, error)
		res := gi.decl.Type.Results
		if res == nil {
			continue
		}
		var resTypes []types.Type
		for _, f := range res.List {
			n := len(f.Names)
			if n == 0 {
				n = 1
			}
			for i := 0; i < n; i++ {
				resTypes = append(resTypes, info.TypeOf(f.Type))
			}
		}
		// (…code…, pure bool, err error): the generator functions themselves have three results, helpers may return
		// several pieces of code
		nRes := len(resTypes)
		if nRes < 3 || !isErrorType(resTypes[nRes-1]) {
			continue
		}
		hasCode := false
		for _, rt := range resTypes[:nRes-2] {
			if a.containsParserFunc(rt, 0) {
				hasCode = true
			}
		}
		if !hasCode {
			continue
		}
		if b, ok := resTypes[nRes-2].Underlying().(*types.Basic); !ok || b.Kind() != types.Bool {
			continue
		}
		g := c.CFG(gi.decl)

		// child generation sites: assignment with purity variable
		type site struct {
			as   *ast.AssignStmt
			pure types.Object
			name string
		}
		var sites []site
		inspectNoLit(gi.decl.Body, func(n ast.Node) bool {
			as, ok := n.(*ast.AssignStmt)
			if !ok || len(as.Rhs) != 1 || len(as.Lhs) < 3 {
				return true
			}
			call, ok := ast.Unparen(as.Rhs[0]).(*ast.CallExpr)
			if !ok {
				return true
			}
			cal := Callee(info, call)
			if cal == nil || !(cal == a.genFunc.Origin() || fwd[cal] || genHelpers[cal]) {
				return true
			}
			pid, ok := as.Lhs[len(as.Lhs)-2].(*ast.Ident)
			if !ok || pid.Name == "_" {
				key := fmt.Sprintf("%s#purity-of:%s", gname, nodeStr(c.Fset, as.Lhs[0]))
				c.Violation(key, as.Pos(), "the purity result of generating %s is discarded", nodeStr(c.Fset, as.Lhs[0]))
				return true
			}
			if loop := enclosingLoop(c, as, gi.decl); loop != nil {
				if pobj := info.ObjectOf(pid); pobj != nil && (pobj.Pos() < loop.Pos() || pobj.Pos() > loop.End()) {
					key := fmt.Sprintf("%s#purity-of:%s", gname, nodeStr(c.Fset, as.Lhs[0]))
					c.Violation(key, as.Pos(), "inside a loop the purity result is assigned directly to %s, which lives outside the loop: every iteration overwrites the purity of the previous sub expressions instead of conjoining them (only the last one counts)", pid.Name)
					return true
				}
			}
			sites = append(sites, site{as: as, pure: info.ObjectOf(pid), name: pid.Name})
			return true
		})
		// accumulator closure: X = X && Y, X := A && B
		feeds := map[types.Object][]types.Object{} // X <- Ys
		addFeed := func(x types.Object, e ast.Expr) {
			var cs []ast.Expr
			conjuncts(e, &cs)
			for _, cj := range cs {
				if id, ok := cj.(*ast.Ident); ok {
					if o := info.ObjectOf(id); o != nil && o != x {
						feeds[x] = append(feeds[x], o)
					}
				}
			}
		}
		inspectNoLit(gi.decl.Body, func(n ast.Node) bool {
			if as, ok := n.(*ast.AssignStmt); ok && len(as.Lhs) == len(as.Rhs) {
				for i, l := range as.Lhs {
					if id, ok := l.(*ast.Ident); ok {
						if o := info.ObjectOf(id); o != nil {
							if b, ok := o.Type().Underlying().(*types.Basic); ok && b.Kind() == types.Bool {
								addFeed(o, as.Rhs[i])
							}
						}
					}
				}
			}
			return true
		})
		closure := func(e ast.Expr) (map[types.Object]bool, []ast.Expr) {
			set := map[types.Object]bool{}
			var cs []ast.Expr
			conjuncts(e, &cs)
			var work []types.Object
			for _, cj := range cs {
				if id, ok := cj.(*ast.Ident); ok {
					if o := info.ObjectOf(id); o != nil {
						work = append(work, o)
					}
				}
			}
			for len(work) > 0 {
				o := work[len(work)-1]
				work = work[:len(work)-1]
				if set[o] {
					continue
				}
				set[o] = true
				work = append(work, feeds[o]...)
			}
			return set, cs
		}
		// named results (genCodeMap style: bare return)
		var namedPure types.Object
		if len(res.List) > 0 {
			cnt := 0
			for _, f := range res.List {
				for _, nm := range f.Names {
					if cnt == nRes-2 {
						namedPure = info.Defs[nm]
					}
					cnt++
				}
			}
		}
		nret := 0
		inspectNoLit(gi.decl.Body, func(n ast.Node) bool {
			r, ok := n.(*ast.ReturnStmt)
			if !ok {
				return true
			}
			var pureExpr ast.Expr
			if len(r.Results) == nRes {
				if id, ok := ast.Unparen(r.Results[0]).(*ast.Ident); ok && id.Name == "nil" {
					return true // error return
				}
				if id, ok := ast.Unparen(r.Results[nRes-1]).(*ast.Ident); !ok || id.Name != "nil" {
					// returns a non-nil error expression or forwards (c, pure, nil) of the custom generator
					if _, isCall := ast.Unparen(r.Results[0]).(*ast.CallExpr); !isCall {
						return true
					}
				}
				pureExpr = r.Results[nRes-2]
			} else if len(r.Results) == 0 && namedPure != nil {
				pureExpr = &ast.Ident{Name: namedPure.Name()}
				info.Uses[pureExpr.(*ast.Ident)] = namedPure
			} else if len(r.Results) == 1 {
				return true // return g.createClosureLiteralFunc(...) forwards all three
			} else {
				return true
			}
			nret++
			key := fmt.Sprintf("%s#purity-return[%d]", gname, nret)
			set, cs := closure(pureExpr)
			var missing []string
			nChildren := 0
			for _, s := range sites {
				relevant := g.Dominates(s.as, r)
				if !relevant {
					// assigned in a loop (or callback) that precedes the return: it has to feed an accumulator
					if loop := enclosingLoop(c, s.as, gi.decl); loop != nil && loop.End() <= r.Pos() && sameClause(c, loop, r, gi.decl) {
						relevant = true
					}
				}
				if !relevant {
					continue
				}
				nChildren++
				if !set[s.pure] {
					missing = append(missing, s.name)
				}
			}
			// compile time captured Function descriptors called by the returned closure
			var res0 ast.Expr = &ast.Ident{Name: "_"}
			if len(r.Results) > 0 {
				res0 = r.Results[0]
			}
			if lit, ok := ast.Unparen(res0).(*ast.FuncLit); ok {
				ast.Inspect(lit.Body, func(x ast.Node) bool {
					call, ok := x.(*ast.CallExpr)
					if !ok {
						return true
					}
					sel, ok := ast.Unparen(call.Fun).(*ast.SelectorExpr)
					if !ok {
						return true
					}
					// a method looked up when the call is evaluated: g.methodHandler.GetMethod(value, name). Its IsPure flag is
					// not known at compile time; the returned purity needs a conjunct that asks the same method handler about
					// the purity of the method name (and is false where the handler cannot tell)
					if sel.Sel.Name == "GetMethod" && isNamed(info.TypeOf(sel.X), modPath+"/funcGen", "MethodHandler") {
						nChildren++
						found := false
						for _, cj := range cs {
							id, ok := cj.(*ast.Ident)
							if !ok {
								continue
							}
							o := info.ObjectOf(id)
							if o == nil {
								continue
							}
							asksHandler, otherTrue := false, false
							ast.Inspect(gi.decl.Body, func(y ast.Node) bool {
								var lhs []ast.Expr
								var rhs []ast.Expr
								switch t := y.(type) {
								case *ast.AssignStmt:
									if len(t.Lhs) == len(t.Rhs) {
										lhs, rhs = t.Lhs, t.Rhs
									}
								case *ast.ValueSpec:
									for _, nm := range t.Names {
										lhs = append(lhs, nm)
									}
									rhs = t.Values
								}
								for i, l := range lhs {
									lid, ok := l.(*ast.Ident)
									if !ok || info.ObjectOf(lid) != o || i >= len(rhs) {
										continue
									}
									r := ast.Unparen(rhs[i])
									if tv := info.Types[r]; tv.Value != nil {
										if tv.Value.Kind() == constant.Bool && constant.BoolVal(tv.Value) {
											otherTrue = true
										}
										continue
									}
									qc, ok := r.(*ast.CallExpr)
									if !ok {
										otherTrue = true
										continue
									}
									qs, ok := ast.Unparen(qc.Fun).(*ast.SelectorExpr)
									if !ok {
										otherTrue = true
										continue
									}
									// the receiver: a type assertion on the method handler (directly or through a variable)
									recv := ast.Unparen(qs.X)
									if rid, ok := recv.(*ast.Ident); ok {
										if as2, j := definingAssign(info, gi.decl, info.ObjectOf(rid)); as2 != nil {
											if len(as2.Rhs) == 1 && j == 0 {
												recv = ast.Unparen(as2.Rhs[0])
											} else if len(as2.Rhs) == len(as2.Lhs) {
												recv = ast.Unparen(as2.Rhs[j])
											}
										}
									}
									if ta, ok := recv.(*ast.TypeAssertExpr); ok {
										recv = ast.Unparen(ta.X)
									}
									if isNamed(info.TypeOf(recv), modPath+"/funcGen", "MethodHandler") {
										asksHandler = true
									} else if hc := Callee(info, qc); hc != nil && hc.Pkg() == gi.pkg.Types && findFuncDecl(gi.pkg, hc) != nil {
										// a private helper that asks the handler: func (g *FunctionGenerator) isMethodPure(name) bool
										hd := findFuncDecl(gi.pkg, hc)
										helperAsks, helperTrue := false, false
										ast.Inspect(hd.Body, func(z ast.Node) bool {
											switch t := z.(type) {
											case *ast.TypeAssertExpr:
												if isNamed(info.TypeOf(t.X), modPath+"/funcGen", "MethodHandler") {
													helperAsks = true
												}
											case *ast.ReturnStmt:
												for _, res := range t.Results {
													if tv := info.Types[res]; tv.Value != nil && tv.Value.Kind() == constant.Bool && constant.BoolVal(tv.Value) {
														helperTrue = true
													}
												}
											}
											return true
										})
										if helperAsks && !helperTrue {
											asksHandler = true
										} else {
											otherTrue = true
										}
									} else {
										otherTrue = true
									}
								}
								return true
							})
							if asksHandler && !otherTrue {
								found = true
							}
						}
						if !found {
							missing = append(missing, "the purity of the method, which is looked up when the call is evaluated (the method handler has to be asked about the method name; unknown means not pure)")
						}
						return true
					}
					// the implementation of a binary operator bound at compile time: op := operator.Impl ... op.Calc(st, a, b)
					if sel.Sel.Name == "Calc" && isNamed(info.TypeOf(sel.X), modPath+"/funcGen", "OperatorImpl") {
						if oid, ok := ast.Unparen(sel.X).(*ast.Ident); ok {
							oobj := info.ObjectOf(oid)
							if oobj != nil && !(oobj.Pos() >= lit.Pos() && oobj.Pos() <= lit.End()) {
								nChildren++
								found := false
								if as, i := definingAssign(info, gi.decl, oobj); as != nil && len(as.Lhs) == len(as.Rhs) {
									if isel, ok := ast.Unparen(as.Rhs[i]).(*ast.SelectorExpr); ok && isel.Sel.Name == "Impl" {
										if did, ok := ast.Unparen(isel.X).(*ast.Ident); ok {
											for _, cj := range cs {
												if s, ok := cj.(*ast.SelectorExpr); ok && s.Sel.Name == "IsPure" {
													if sid, ok := ast.Unparen(s.X).(*ast.Ident); ok && info.ObjectOf(sid) == info.ObjectOf(did) {
														found = true
													}
												}
											}
										}
									}
								}
								// impl := fg.GetOpImpl(op.Operator) inside `case "&":` of a custom generator: the operator is
								// the one this package registers under that name; pure if registered by a method that fixes
								// isPure to true (AddOp, AddOpImpl, AddSimpleOp) or with the constant true
								if !found {
									if as, i := definingAssign(info, gi.decl, oobj); as != nil && len(as.Lhs) == len(as.Rhs) {
										if gcall, ok := ast.Unparen(as.Rhs[i]).(*ast.CallExpr); ok {
											if cal := Callee(info, gcall); cal != nil && cal.Name() == "GetOpImpl" {
												var names []string
												for q := c.Parent(as); q != nil && q != ast.Node(gi.decl); q = c.Parent(q) {
													if cc, ok := q.(*ast.CaseClause); ok {
														for _, e := range cc.List {
															if tv := info.Types[e]; tv.Value != nil && tv.Value.Kind() == constant.String {
																names = append(names, constant.StringVal(tv.Value))
															}
														}
													}
												}
												if len(names) == 0 {
													// a private constructor of the closure: the case clauses of its call sites
													if dobj, ok := info.Defs[gi.decl.Name].(*types.Func); ok {
														for _, f := range gi.pkg.Syntax {
															ast.Inspect(f, func(y ast.Node) bool {
																hc, ok := y.(*ast.CallExpr)
																if !ok {
																	return true
																}
																if cal := Callee(info, hc); cal == nil || cal.Origin() != dobj.Origin() {
																	return true
																}
																for q := c.Parent(hc); q != nil; q = c.Parent(q) {
																	if cc, ok := q.(*ast.CaseClause); ok {
																		for _, e := range cc.List {
																			if tv := info.Types[e]; tv.Value != nil && tv.Value.Kind() == constant.String {
																				names = append(names, constant.StringVal(tv.Value))
																			}
																		}
																		break
																	}
																}
																return true
															})
														}
													}
												}
												allPure := len(names) > 0
												for _, nm := range names {
													reg := false
													for _, f := range gi.pkg.Syntax {
														ast.Inspect(f, func(y ast.Node) bool {
															rc, ok := y.(*ast.CallExpr)
															if !ok || len(rc.Args) < 3 {
																return true
															}
															rs, ok := ast.Unparen(rc.Fun).(*ast.SelectorExpr)
															if !ok || !strings.HasPrefix(rs.Sel.Name, "AddOp") && rs.Sel.Name != "AddSimpleOp" {
																return true
															}
															ai := 0
															if rs.Sel.Name == "AddOpBehind" {
																ai = 1
															}
															if tv := info.Types[rc.Args[ai]]; tv.Value == nil || tv.Value.Kind() != constant.String || constant.StringVal(tv.Value) != nm {
																return true
															}
															switch rs.Sel.Name {
															case "AddOp", "AddOpImpl", "AddSimpleOp":
																reg = true
															default:
																if tv := info.Types[rc.Args[len(rc.Args)-1]]; tv.Value != nil && tv.Value.Kind() == constant.Bool && constant.BoolVal(tv.Value) {
																	reg = true
																}
															}
															return true
														})
													}
													if !reg {
														allPure = false
													}
												}
												if allPure {
													found = true
												}
											}
										}
									}
								}
								if !found {
									missing = append(missing, "the IsPure flag of the operator whose implementation "+oid.Name+" is")
								}
							}
						}
						return true
					}
					if sel.Sel.Name != "Func" || !isNamed(info.TypeOf(sel.X), modPath+"/funcGen", "Function") {
						return true
					}
					id, ok := ast.Unparen(sel.X).(*ast.Ident)
					if !ok {
						return true
					}
					obj := info.ObjectOf(id)
					if obj == nil || (obj.Pos() >= lit.Pos() && obj.Pos() <= lit.End()) {
						return true // looked up at run time
					}
					nChildren++
					found := false
					for _, cj := range cs {
						if s, ok := cj.(*ast.SelectorExpr); ok && s.Sel.Name == "IsPure" {
							if sid, ok := ast.Unparen(s.X).(*ast.Ident); ok && info.ObjectOf(sid) == obj {
								found = true
							}
						}
					}
					if !found {
						missing = append(missing, id.Name+".IsPure")
					}
					return true
				})
			}
			if tv, ok := info.Types[pureExpr]; ok && tv.Value != nil && nChildren > 0 {
				c.Violation(key, r.Pos(), "the clause returns the constant purity %s although it has %d sub expression(s) / callee(s) whose purity matters", tv.Value, nChildren)
				return true
			}
			if len(missing) > 0 {
				c.Violation(key, r.Pos(), "the returned purity %s does not include %s: an impure sub expression makes the whole expression look pure, so the optimizer may fold it at Generate time", nodeStr(c.Fset, pureExpr), strings.Join(missing, ", "))
			} else {
				c.OK(key, r.Pos(), "returned purity %s conjoins all %d relevant purity result(s)", nodeStr(c.Fset, pureExpr), nChildren)
			}
			return true
		})
	}
	// the oracles the generator asks: every implementation of MethodPurity.IsMethodPure in the repository says
	// "pure" only after it looked at the IsPure flag of the methods of that name: there is a `return false` under a
	// condition on an IsPure field
	for _, pkg := range c.RepoPkgs {
		pinfo := pkg.TypesInfo
		for _, f := range pkg.Syntax {
			for _, d := range f.Decls {
				fd, ok := d.(*ast.FuncDecl)
				if !ok || fd.Body == nil || fd.Recv == nil || fd.Name.Name != "IsMethodPure" {
					continue
				}
				sig, ok := pinfo.Defs[fd.Name].Type().(*types.Signature)
				if !ok || sig.Params().Len() != 1 || sig.Results().Len() != 1 {
					continue
				}
				key := declName(pkg, fd) + "#method-purity-oracle"
				consults := false
				g := c.CFG(fd)
				inspectNoLit(fd.Body, func(x ast.Node) bool {
					r, ok := x.(*ast.ReturnStmt)
					if !ok || len(r.Results) != 1 {
						return true
					}
					if tv := pinfo.Types[r.Results[0]]; tv.Value != nil && tv.Value.Kind() == constant.Bool && !constant.BoolVal(tv.Value) {
						for _, gd := range g.Guards(r) {
							if sel, ok := ast.Unparen(gd.Cond).(*ast.SelectorExpr); ok && sel.Sel.Name == "IsPure" && !gd.Val {
								consults = true
							}
						}
					}
					// return m.IsPure / return a && m.IsPure
					if containsNode(r.Results[0], func(y ast.Node) bool {
						sel, ok := y.(*ast.SelectorExpr)
						return ok && sel.Sel.Name == "IsPure"
					}) {
						consults = true
					}
					return true
				})
				c.Check(consults, key, fd.Pos(), "the method purity oracle answers false where a method of that name is registered with IsPure false", "the method purity oracle never looks at the IsPure flag of the methods: it calls impure methods pure, so closures around them are folded at Generate time")
			}
		}
	}
}

func enclosingLoop(c *Ctx, n ast.Node, stop ast.Node) ast.Node {
	for q := c.Parent(n); q != nil && q != stop; q = c.Parent(q) {
		switch t := q.(type) {
		case *ast.RangeStmt, *ast.ForStmt:
			return q
		case *ast.FuncLit:
			// callback passed to an Iter call counts as a loop
			if call, ok := c.Parent(t).(*ast.CallExpr); ok {
				return call
			}
		}
	}
	return nil
}

// sameClause: both nodes are in the same innermost case clause / function body.
func sameClause(c *Ctx, x, y ast.Node, stop ast.Node) bool {
	clause := func(n ast.Node) ast.Node {
		for q := c.Parent(n); q != nil; q = c.Parent(q) {
			switch q.(type) {
			case *ast.CaseClause:
				return q
			}
			if q == stop {
				return q
			}
		}
		return nil
	}
	return clause(x) == clause(y)
}

// ---------------------------------------------------------------------------
// R02.5 panic containment of folding

func ruleR025(c *Ctx) {
	root := c.Pkg("")
	if root == nil {
		c.Undecided("package parser2", token.NoPos, "not found")
		return
	}
	info := root.TypesInfo
	optDecl := c.FuncDecl(root, "", "Optimize")
	optHelper := LookupFunc(root, "opt")
	if optDecl == nil {
		c.Undecided("parser2.Optimize", token.NoPos, "not found")
		return
	}
	optObj := LookupFunc(root, "Optimize")
	// (1) deferred recover that restores the incoming AST
	key := "parser2.Optimize#deferred-recover"
	okRec := false
	var astParam, namedRes types.Object
	if optDecl.Type.Params != nil && len(optDecl.Type.Params.List) > 0 && len(optDecl.Type.Params.List[0].Names) > 0 {
		astParam = info.Defs[optDecl.Type.Params.List[0].Names[0]]
	}
	if optDecl.Type.Results != nil && len(optDecl.Type.Results.List) == 1 && len(optDecl.Type.Results.List[0].Names) == 1 {
		namedRes = info.Defs[optDecl.Type.Results.List[0].Names[0]]
	}
	for _, s := range optDecl.Body.List {
		d, ok := s.(*ast.DeferStmt)
		if !ok {
			// the defer has to come before any optimizer code runs
			if containsNode(s, func(n ast.Node) bool { _, ok := n.(*ast.CallExpr); return ok }) {
				break
			}
			continue
		}
		lit, ok := d.Call.Fun.(*ast.FuncLit)
		if !ok {
			continue
		}
		hasRecover, restores := false, false
		ast.Inspect(lit.Body, func(n ast.Node) bool {
			switch t := n.(type) {
			case *ast.CallExpr:
				if id, ok := t.Fun.(*ast.Ident); ok && id.Name == "recover" {
					if _, isB := info.Uses[id].(*types.Builtin); isB {
						hasRecover = true
					}
				}
			case *ast.AssignStmt:
				if len(t.Lhs) == 1 && len(t.Rhs) == 1 {
					l, ok1 := t.Lhs[0].(*ast.Ident)
					r, ok2 := t.Rhs[0].(*ast.Ident)
					if ok1 && ok2 && namedRes != nil && info.ObjectOf(l) == namedRes && info.ObjectOf(r) == astParam {
						restores = true
					}
				}
			}
			return true
		})
		if hasRecover && restores {
			okRec = true
		}
	}
	c.Check(okRec, key, optDecl.Pos(), "Optimize recovers panics of the optimizer and returns the incoming AST", "parser2.Optimize has no leading deferred recover that restores the incoming AST: a panic while folding (e.g. in a host operator) escapes from Parse/Generate")

	// (2) who may call the optimizer
	allowed := func(fd *ast.FuncDecl) bool {
		if fd == nil {
			return false
		}
		if fd == optDecl || (fd.Recv == nil && fd.Name.Name == "opt") {
			return true
		}
		return fd.Recv != nil && fd.Name.Name == "Optimize"
	}
	n := 0
	for _, pkg := range c.RepoPkgs {
		pinfo := pkg.TypesInfo
		for _, f := range pkg.Syntax {
			ast.Inspect(f, func(x ast.Node) bool {
				call, ok := x.(*ast.CallExpr)
				if !ok {
					return true
				}
				cal := Callee(pinfo, call)
				if cal == nil || cal.Pkg() == nil || cal.Pkg().Path() != modPath {
					return true
				}
				isIfaceOpt := false
				if cal.Name() == "Optimize" {
					if sig, ok := cal.Type().(*types.Signature); ok && sig.Recv() != nil {
						rt := sig.Recv().Type()
						if isNamed(rt, modPath, "Optimizer") || isNamed(rt, modPath, "AST") {
							isIfaceOpt = true
						}
					}
				}
				isHelper := optHelper != nil && cal == optHelper.Origin()
				if !isIfaceOpt && !isHelper {
					return true
				}
				n++
				fd := c.EnclosingDecl(call)
				where := "package level"
				if fd != nil {
					where = declName(pkg, fd)
				}
				k := fmt.Sprintf("%s#optimizer-call[%d]", where, ordinalIn(rootOrDecl(fd, f), call, func(y ast.Node) bool { _, ok := y.(*ast.CallExpr); return ok }))
				if pkg == root && allowed(fd) {
					c.OK(k, call.Pos(), "optimizer code is invoked inside the dynamic extent of parser2.Optimize")
				} else {
					c.Violation(k, call.Pos(), "%s invokes the optimizer (%s) directly, outside the recovering wrapper parser2.Optimize", where, nodeStr(c.Fset, call.Fun))
				}
				return true
			})
		}
	}
	// (3) the parser reaches the optimizer through Optimize only: calls of Optimize exist
	m := 0
	for _, f := range root.Syntax {
		ast.Inspect(f, func(x ast.Node) bool {
			if call, ok := x.(*ast.CallExpr); ok && optObj != nil && isCallTo(info, call, optObj) {
				m++
			}
			return true
		})
	}
	if m == 0 {
		c.Undecided("parser2#calls-of-Optimize", token.NoPos, "the parser does not call parser2.Optimize any more; the folding entry is elsewhere")
	}
}

func rootOrDecl(fd *ast.FuncDecl, f *ast.File) ast.Node {
	if fd != nil {
		return fd
	}
	return f
}

// funcValueExec: a call H(..., X.Func, ...) of a function of the package whose parameter at that position is called in
// H's body (foldCall(ast, fu.Func, args, line) with `v, err := f(NewStack(args...), nil)` inside). It returns the
// descriptor X, or nil.
func funcValueExec(c *Ctx, pkg *packages.Package, call *ast.CallExpr) ast.Expr {
	info := pkg.TypesInfo
	cal := Callee(info, call)
	if cal == nil || cal.Pkg() != pkg.Types {
		return nil
	}
	hd := findFuncDecl(pkg, cal)
	if hd == nil || hd.Body == nil || hd.Type.Params == nil {
		return nil
	}
	pi := 0
	for _, fl := range hd.Type.Params.List {
		for _, nm := range fl.Names {
			if pi < len(call.Args) {
				if sel, ok := ast.Unparen(call.Args[pi]).(*ast.SelectorExpr); ok && sel.Sel.Name == "Func" && isNamed(info.TypeOf(sel.X), modPath+"/funcGen", "Function") {
					pobj := info.Defs[nm]
					if containsNodeDeep(hd.Body, func(y ast.Node) bool {
						ic, ok := y.(*ast.CallExpr)
						if !ok {
							return false
						}
						id, ok := ast.Unparen(ic.Fun).(*ast.Ident)
						return ok && info.ObjectOf(id) == pobj
					}) {
						return sel.X
					}
				}
			}
			pi++
		}
	}
	return nil
}
