package main

import (
	"fmt"
	"go/ast"
	"go/token"
	"go/types"
	"strings"
)

// parserAnchors: the recursive descent parser.
type parserAnchors struct {
	next, peek, peekpeek *types.Func
	missing              []string
}

func (c *Ctx) parserAnchors() *parserAnchors {
	root := c.Pkg("")
	a := &parserAnchors{}
	if root == nil {
		a.missing = append(a.missing, "package parser2")
		return a
	}
	a.next = LookupMethod(root, "Tokenizer", "Next")
	a.peek = LookupMethod(root, "Tokenizer", "Peek")
	a.peekpeek = LookupMethod(root, "Tokenizer", "PeekPeek")
	if a.next == nil {
		a.missing = append(a.missing, "parser2.Tokenizer.Next")
	}
	if a.peek == nil {
		a.missing = append(a.missing, "parser2.Tokenizer.Peek")
	}
	if a.peekpeek == nil {
		a.missing = append(a.missing, "parser2.Tokenizer.PeekPeek")
	}
	return a
}

// condNormal brings a comparison X op Y of linear forms into the form d < 0.
func condNormal(env *symEnv, e ast.Expr) (lin, bool) {
	be, ok := ast.Unparen(e).(*ast.BinaryExpr)
	if !ok {
		return lin{}, false
	}
	x, y := env.eval(be.X), env.eval(be.Y)
	switch be.Op {
	case token.LSS:
		return x.sub(y), true
	case token.LEQ:
		return x.sub(y).sub(linConst(1)), true
	case token.GTR:
		return y.sub(x), true
	case token.GEQ:
		return y.sub(x).sub(linConst(1)), true
	}
	return lin{}, false
}

func paramKeyOf(info *types.Info, fd *ast.FuncDecl, i int) string {
	n := 0
	for _, f := range fd.Type.Params.List {
		for _, nm := range f.Names {
			if n == i {
				k, _ := exprKey(info, nm)
				return k
			}
			n++
		}
	}
	return ""
}

func paramKeyByName(info *types.Info, fd *ast.FuncDecl, name string) string {
	for _, f := range fd.Type.Params.List {
		for _, nm := range f.Names {
			if nm.Name == name {
				k, _ := exprKey(info, nm)
				return k
			}
		}
	}
	return ""
}

// ---------------------------------------------------------------------------
// R03.1 one recursion level per operator

func ruleR031(c *Ctx) {
	root := c.Pkg("")
	if root == nil {
		c.Undecided("package parser2", token.NoPos, "not found")
		return
	}
	info := root.TypesInfo
	fd := c.FuncDecl(root, "Parser", "nextParserCall")
	parseOp := LookupMethod(root, "Parser", "parseOp")
	parseUnary := LookupMethod(root, "Parser", "parseUnary")
	if fd == nil || parseOp == nil || parseUnary == nil {
		c.Undecided("parser2.Parser.nextParserCall/parseOp/parseUnary", token.NoPos, "anchor not found")
		return
	}
	key := "parser2.Parser.nextParserCall"
	// the int parameter
	opKey := ""
	for i := 0; ; i++ {
		k := paramKeyOf(info, fd, i)
		if k == "" {
			break
		}
		opKey = k
	}
	env := &symEnv{info: info, vals: map[string]lin{}}
	var ifs *ast.IfStmt
	for _, s := range fd.Body.List {
		if i, ok := s.(*ast.IfStmt); ok && ifs == nil {
			ifs = i
		}
	}
	if ifs == nil || ifs.Else == nil {
		c.Undecided(key, fd.Pos(), "expected an if/else that selects the next parser level")
		return
	}
	d, ok := condNormal(env, ifs.Cond)
	// operators length symbol
	var lenSym string
	for k := range d.terms {
		if strings.HasPrefix(k, "len:") {
			lenSym = k
		}
	}
	if !ok || lenSym == "" {
		c.Undecided(key, ifs.Pos(), "condition %s not understood", nodeStr(c.Fset, ifs.Cond))
		return
	}
	want := symVar(opKey).add(linConst(1)).sub(symVar(lenSym)) // op+1-len < 0
	thenBranch, elseBranch := ast.Node(ifs.Body), ast.Node(ifs.Else)
	if d.eq(want.neg().sub(linConst(1))) {
		// negated form: op+1 >= len  <=> len-op-1 <= 0 <=> len-op-2 < 0
		thenBranch, elseBranch = elseBranch, thenBranch
	} else if !d.eq(want) {
		c.Violation(key+"#level-test", ifs.Pos(), "the next level is selected by %s, i.e. %s < 0, instead of op+1 < len(operators): a priority level is skipped or the unary level is reached one level early/late", nodeStr(c.Fset, ifs.Cond), symStr(d))
		return
	}
	c.OK(key+"#level-test", ifs.Pos(), "descends to the next operator level exactly while op+1 < len(operators)")
	// then: parseOp(…, op+1, …)
	var opCall *ast.CallExpr
	ast.Inspect(thenBranch, func(n ast.Node) bool {
		if call, ok := n.(*ast.CallExpr); ok && isCallTo(info, call, parseOp) {
			opCall = call
		}
		return true
	})
	if opCall == nil {
		// the next level as a method value of a small struct: operatorLevel{parser: p, op: op + 1}.parse
		done := false
		ast.Inspect(thenBranch, func(n ast.Node) bool {
			sel, ok := n.(*ast.SelectorExpr)
			if !ok || done {
				return true
			}
			fs, ok := info.Selections[sel]
			if !ok || fs.Kind() != types.MethodVal {
				return true
			}
			cl, ok := ast.Unparen(sel.X).(*ast.CompositeLit)
			m, _ := fs.Obj().(*types.Func)
			if !ok || m == nil {
				return true
			}
			md := findFuncDecl(root, m)
			if md == nil || md.Body == nil || md.Recv == nil || len(md.Recv.List[0].Names) != 1 {
				return true
			}
			recv := info.Defs[md.Recv.List[0].Names[0]]
			var inner *ast.CallExpr
			ast.Inspect(md.Body, func(y ast.Node) bool {
				if call, ok := y.(*ast.CallExpr); ok && isCallTo(info, call, parseOp) && len(call.Args) == 3 {
					inner = call
				}
				return true
			})
			if inner == nil {
				return true
			}
			// the level argument: a field of the receiver, bound in the literal
			if fsel, ok := ast.Unparen(inner.Args[1]).(*ast.SelectorExpr); ok {
				if id, ok := ast.Unparen(fsel.X).(*ast.Ident); ok && info.ObjectOf(id) == recv {
					for _, el := range cl.Elts {
						if kv, ok := el.(*ast.KeyValueExpr); ok {
							if k, ok := kv.Key.(*ast.Ident); ok && k.Name == fsel.Sel.Name {
								done = true
								got := env.eval(kv.Value)
								c.Check(got.eq(symVar(opKey).add(linConst(1))), key+"#descend", sel.Pos(), "next level is parseOp(op+1) (level bound in the method value)", "next level is parseOp("+symStr(got)+") instead of parseOp(op+1): operators of one priority are parsed at the wrong level")
							}
						}
					}
				}
			}
			return true
		})
		if !done {
			c.Violation(key+"#descend", ifs.Body.Pos(), "the branch for op+1 < len(operators) does not call parseOp")
		}
	} else if len(opCall.Args) != 3 {
		c.Violation(key+"#descend", ifs.Body.Pos(), "the branch for op+1 < len(operators) does not call parseOp")
	} else {
		got := env.eval(opCall.Args[1])
		c.Check(got.eq(symVar(opKey).add(linConst(1))), key+"#descend", opCall.Pos(), "next level is parseOp(op+1)", "next level is parseOp("+symStr(got)+") instead of parseOp(op+1): operators of one priority are parsed at the wrong level")
	}
	usesUnary := containsNode(elseBranch, func(n ast.Node) bool {
		if sel, ok := n.(*ast.SelectorExpr); ok {
			if s, ok := info.Selections[sel]; ok && s.Obj() == parseUnary {
				return true
			}
			if s, ok := info.Selections[sel]; ok {
				if f, ok := s.Obj().(*types.Func); ok && f.Origin() == parseUnary.Origin() {
					return true
				}
			}
		}
		return false
	})
	c.Check(usesUnary, key+"#bottom", ifs.Else.Pos(), "behind the last operator level comes parseUnary", "the last operator level does not continue with parseUnary")
}

// ---------------------------------------------------------------------------
// R03.2 left associative accumulation loop

func ruleR032(c *Ctx) {
	root := c.Pkg("")
	if root == nil {
		c.Undecided("package parser2", token.NoPos, "not found")
		return
	}
	info := root.TypesInfo
	fd := c.FuncDecl(root, "Parser", "parseOp")
	nextCall := LookupMethod(root, "Parser", "nextParserCall")
	pa := c.parserAnchors()
	if fd == nil || nextCall == nil || len(pa.missing) > 0 {
		c.Undecided("parser2.Parser.parseOp/nextParserCall", token.NoPos, "anchor not found")
		return
	}
	key := "parser2.Parser.parseOp"
	opKey := ""
	for i := 0; ; i++ {
		k := paramKeyOf(info, fd, i)
		if k == "" {
			break
		}
		if t := info.TypeOf(paramIdent(fd, i)); t != nil {
			if b, ok := t.Underlying().(*types.Basic); ok && b.Kind() == types.Int {
				opKey = k
			}
		}
	}
	// next := p.nextParserCall(op); operator := p.operators[op]
	var nextObj, operatorObj types.Object
	inspectNoLit(fd.Body, func(n ast.Node) bool {
		as, ok := n.(*ast.AssignStmt)
		if !ok || len(as.Lhs) != 1 || len(as.Rhs) != 1 {
			return true
		}
		id, ok := as.Lhs[0].(*ast.Ident)
		if !ok {
			return true
		}
		switch r := ast.Unparen(as.Rhs[0]).(type) {
		case *ast.CallExpr:
			if isCallTo(info, r, nextCall) && len(r.Args) == 1 {
				if k, _ := exprKey(info, r.Args[0]); k == opKey {
					nextObj = info.ObjectOf(id)
				}
			}
		case *ast.IndexExpr:
			if sel, ok := ast.Unparen(r.X).(*ast.SelectorExpr); ok && sel.Sel.Name == "operators" {
				if k, _ := exprKey(info, r.Index); k == opKey {
					operatorObj = info.ObjectOf(id)
				}
			}
		}
		return true
	})
	if nextObj == nil || operatorObj == nil {
		c.Undecided(key, fd.Pos(), "next := p.nextParserCall(op) / operator := p.operators[op] not found")
		return
	}
	isNextCall := func(e ast.Expr) bool {
		call, ok := ast.Unparen(e).(*ast.CallExpr)
		if !ok {
			return false
		}
		id, ok := ast.Unparen(call.Fun).(*ast.Ident)
		return ok && info.ObjectOf(id) == nextObj
	}
	// the Operate literal
	var lit *ast.CompositeLit
	ast.Inspect(fd.Body, func(n ast.Node) bool {
		if cl, ok := n.(*ast.CompositeLit); ok && isNamed(info.TypeOf(cl), modPath, "Operate") {
			lit = cl
		}
		return true
	})
	if lit == nil {
		c.Undecided(key, fd.Pos(), "no Operate literal")
		return
	}
	fields := map[string]ast.Expr{}
	for _, el := range lit.Elts {
		if kv, ok := el.(*ast.KeyValueExpr); ok {
			if k, ok := kv.Key.(*ast.Ident); ok {
				fields[k.Name] = kv.Value
			}
		}
	}
	// enclosing loop
	var loop *ast.ForStmt
	for q := c.Parent(lit); q != nil && q != fd; q = c.Parent(q) {
		if f, ok := q.(*ast.ForStmt); ok {
			loop = f
			break
		}
	}
	if loop == nil {
		c.Violation(key+"#loop", lit.Pos(), "the Operate node is not built inside a loop: a chain a op b op c of one priority is not consumed completely (the rest is left as trailing tokens or regrouped)")
		return
	}
	c.OK(key+"#loop", loop.Pos(), "operands of one priority level are accumulated in a loop")
	// the accumulator: the variable the literal is assigned to
	var acc types.Object
	if as, ok := c.Parent(c.parentSkippingUnary(lit)).(*ast.AssignStmt); ok && len(as.Lhs) == 1 {
		if id, ok := as.Lhs[0].(*ast.Ident); ok {
			acc = info.ObjectOf(id)
		}
	}
	if acc == nil {
		c.Undecided(key+"#accumulate", lit.Pos(), "the Operate node is not assigned to a variable")
		return
	}
	// sources of a variable inside the function: values assigned to it
	sourcesOf := func(obj types.Object) []ast.Expr {
		var res []ast.Expr
		inspectNoLit(fd.Body, func(n ast.Node) bool {
			if as, ok := n.(*ast.AssignStmt); ok {
				for i, l := range as.Lhs {
					if id, ok := l.(*ast.Ident); ok && info.ObjectOf(id) == obj {
						if len(as.Rhs) == len(as.Lhs) {
							res = append(res, as.Rhs[i])
						} else if len(as.Rhs) == 1 {
							res = append(res, as.Rhs[0])
						}
					}
				}
			}
			return true
		})
		return res
	}
	derivesFromAcc := func(e ast.Expr) bool {
		id, ok := ast.Unparen(e).(*ast.Ident)
		if !ok {
			return false
		}
		obj := info.ObjectOf(id)
		if obj == acc {
			return true
		}
		srcs := sourcesOf(obj)
		if len(srcs) != 1 {
			return false
		}
		id2, ok := ast.Unparen(srcs[0]).(*ast.Ident)
		return ok && info.ObjectOf(id2) == acc
	}
	freshNext := func(e ast.Expr) (bool, ast.Node) {
		id, ok := ast.Unparen(e).(*ast.Ident)
		if !ok {
			return false, nil
		}
		srcs := sourcesOf(info.ObjectOf(id))
		if len(srcs) != 1 || !isNextCall(srcs[0]) {
			return false, nil
		}
		// assigned inside the loop
		if srcs[0].Pos() < loop.Body.Pos() || srcs[0].End() > loop.Body.End() {
			return false, nil
		}
		return true, srcs[0]
	}
	aOK := fields["A"] != nil && derivesFromAcc(fields["A"])
	bOK, bCall := false, ast.Node(nil)
	if fields["B"] != nil {
		bOK, bCall = freshNext(fields["B"])
	}
	switch {
	case aOK && bOK:
		c.OK(key+"#left-assoc", lit.Pos(), "A is the accumulated left operand, B a fresh operand of the next level: equal priority associates to the left")
	case !aOK:
		c.Violation(key+"#left-assoc", lit.Pos(), "the left operand A (%s) of the new node is not the expression accumulated so far: equal priority does not associate to the left", nodeStr(c.Fset, fields["A"]))
	default:
		c.Violation(key+"#left-assoc", lit.Pos(), "the right operand B (%s) is not a fresh operand parsed by the next level inside the loop", nodeStr(c.Fset, fields["B"]))
	}
	// first operand comes from the next level too
	firstOK := false
	for _, s := range sourcesOf(acc) {
		if isNextCall(s) && s.Pos() < loop.Pos() {
			firstOK = true
		}
	}
	c.Check(firstOK, key+"#first-operand", fd.Pos(), "the first operand is parsed by the next level", "the first operand is not parsed by the next level")
	// continuation test: token is this level's operator, and it is consumed before B is parsed
	g := c.CFG(fd)
	guardImage, guardTyp := false, false
	for _, gd := range g.Guards(lit) {
		be, ok := ast.Unparen(gd.Cond).(*ast.BinaryExpr)
		if !ok || be.Op != token.EQL || !gd.Val {
			continue
		}
		for _, pair := range [][2]ast.Expr{{be.X, be.Y}, {be.Y, be.X}} {
			if sel, ok := ast.Unparen(pair[0]).(*ast.SelectorExpr); ok {
				if sel.Sel.Name == "image" {
					if id, ok := ast.Unparen(pair[1]).(*ast.Ident); ok && info.ObjectOf(id) == operatorObj {
						guardImage = true
					}
				}
				if sel.Sel.Name == "typ" {
					if id, ok := ast.Unparen(pair[1]).(*ast.Ident); ok && id.Name == "tOperate" {
						guardTyp = true
					}
				}
			}
		}
	}
	c.Check(guardImage && guardTyp, key+"#continue-test", lit.Pos(), "a node is built only when the next token is an operator token with this level's spelling", fmt.Sprintf("the node is built without testing that the next token is this level's operator (typ test: %v, image test: %v)", guardTyp, guardImage))
	if bCall != nil {
		consumed := false
		inspectNoLit(loop.Body, func(n ast.Node) bool {
			if call, ok := n.(*ast.CallExpr); ok && isCallTo(info, call, pa.next) && g.Dominates(call, bCall) {
				consumed = true
			}
			return true
		})
		c.Check(consumed, key+"#consume-operator", bCall.Pos(), "the operator token is consumed before the right operand is parsed", "the right operand is parsed without consuming the operator token first")
	}
	// Priority: op, Operator: operator
	pk, _ := exprKey(info, fields["Priority"])
	var oo types.Object
	if id, ok := ast.Unparen(fields["Operator"]).(*ast.Ident); ok {
		oo = info.ObjectOf(id)
	}
	c.Check(pk == opKey && oo == operatorObj, key+"#node-fields", lit.Pos(), "node records this level's operator and priority", "node records Operator="+nodeStr(c.Fset, fields["Operator"])+" Priority="+nodeStr(c.Fset, fields["Priority"])+" instead of this level's operator and op")
	// loop exit returns the accumulator
	exitOK := true
	inspectNoLit(loop.Body, func(n ast.Node) bool {
		if r, ok := n.(*ast.ReturnStmt); ok && len(r.Results) == 2 {
			if id, ok := ast.Unparen(r.Results[1]).(*ast.Ident); ok && id.Name == "nil" {
				if id0, ok := ast.Unparen(r.Results[0]).(*ast.Ident); !ok || info.ObjectOf(id0) != acc {
					exitOK = false
				}
			}
		}
		return true
	})
	c.Check(exitOK, key+"#result", loop.Pos(), "the loop returns the accumulated expression", "a success return inside the loop does not return the accumulated expression")
}

func paramIdent(fd *ast.FuncDecl, i int) *ast.Ident {
	n := 0
	for _, f := range fd.Type.Params.List {
		for _, nm := range f.Names {
			if n == i {
				return nm
			}
			n++
		}
	}
	return nil
}

// parentSkippingUnary returns n, or the &n expression if n is its operand.
func (c *Ctx) parentSkippingUnary(n ast.Node) ast.Node {
	if u, ok := c.Parent(n).(*ast.UnaryExpr); ok && u.Op == token.AND {
		return u
	}
	return n
}

// ---------------------------------------------------------------------------
// R03.3 prefix operators

func ruleR033(c *Ctx) {
	root := c.Pkg("")
	if root == nil {
		c.Undecided("package parser2", token.NoPos, "not found")
		return
	}
	info := root.TypesInfo
	fd := c.FuncDecl(root, "Parser", "parseUnary")
	parse := c.FuncDecl(root, "Parser", "Parse")
	parseOp := LookupMethod(root, "Parser", "parseOp")
	parseNonOp := LookupMethod(root, "Parser", "parseNonOperator")
	if fd == nil || parse == nil || parseOp == nil || parseNonOp == nil {
		c.Undecided("parser2.Parser.parseUnary/Parse/parseOp/parseNonOperator", token.NoPos, "anchor not found")
		return
	}
	key := "parser2.Parser.parseUnary"
	g := c.CFG(fd)
	env := &symEnv{info: info, vals: map[string]lin{}}
	nextCall := LookupMethod(root, "Parser", "nextParserCall")
	nOp := 0
	// guards at a call, in normal form d < 0
	guardOpPos := func(call ast.Node, posSym string) (nonNeg, bounded bool) {
		for _, gd := range g.Guards(call) {
			d, ok := condNormal(env, gd.Cond)
			if !ok {
				continue
			}
			// opPos >= 0  <=>  -opPos-1 < 0
			if gd.Val && d.eq(symVar(posSym).neg().sub(linConst(1))) {
				nonNeg = true
			}
			if !gd.Val && d.eq(symVar(posSym)) {
				nonNeg = true
			}
			// opPos+1 < len(operators)
			for k := range d.terms {
				if strings.HasPrefix(k, "len:") && strings.Contains(k, "operators") && gd.Val && d.eq(symVar(posSym).add(linConst(1)).sub(symVar(k))) {
					bounded = true
				}
			}
		}
		return
	}
	opPosSym := func(l lin) string {
		for k := range l.terms {
			if strings.Contains(k, ".opPos@") {
				return k
			}
		}
		return ""
	}
	ast.Inspect(fd.Body, func(n ast.Node) bool {
		call, ok := n.(*ast.CallExpr)
		if !ok {
			return true
		}
		// (a) the level above opPos through nextParserCall(opPos), which R03.1 shows to be parseOp(opPos+1) below the
		// end of the table and parseUnary behind it
		if inner, ok := ast.Unparen(call.Fun).(*ast.CallExpr); ok && nextCall != nil && isCallTo(info, inner, nextCall) && len(inner.Args) == 1 {
			nOp++
			arg := env.eval(inner.Args[0])
			posSym := opPosSym(arg)
			if posSym == "" || !arg.eq(symVar(posSym)) {
				c.Violation(key+"#operand-level", call.Pos(), "the operand of a prefix operator that is also binary is parsed at the level above %s instead of the level above opPos: it no longer extends exactly over the operators of strictly higher priority", symStr(arg))
				return true
			}
			nonNeg, _ := guardOpPos(call, posSym)
			c.Check(nonNeg, key+"#operand-level", call.Pos(), "a prefix operator that is also binary parses its operand at the level above its own (nextParserCall(opPos)), under opPos >= 0", "nextParserCall(opPos) is not guarded by opPos >= 0: a pure prefix operator (opPos = -1) would parse a whole expression as its operand")
			return true
		}
		// (b) directly by parseOp(opPos+1): needs the bounds test nextParserCall has
		if !isCallTo(info, call, parseOp) || len(call.Args) != 3 {
			return true
		}
		nOp++
		arg := env.eval(call.Args[1])
		posSym := opPosSym(arg)
		if posSym == "" || !arg.eq(symVar(posSym).add(linConst(1))) {
			c.Violation(key+"#operand-level", call.Pos(), "the operand of a prefix operator that is also binary is parsed by parseOp(%s) instead of parseOp(opPos+1): it no longer extends exactly over the operators of strictly higher priority", symStr(arg))
			return true
		}
		nonNeg, bounded := guardOpPos(call, posSym)
		switch {
		case !nonNeg:
			c.Violation(key+"#operand-level", call.Pos(), "parseOp(opPos+1) is not guarded by opPos >= 0: a pure prefix operator (opPos = -1) would parse a whole expression as its operand")
		case !bounded:
			c.Violation(key+"#operand-level", call.Pos(), "parseOp(opPos+1) is called without the test opPos+1 < len(operators): a prefix operator that is also the binary operator of the highest priority indexes the operator table out of range (Go panic while parsing, e.g. Op(\"+\",\"-\").Unary(\"-\") on -a)")
		default:
			c.OK(key+"#operand-level", call.Pos(), "a prefix operator that is also binary parses its operand with parseOp(opPos+1), under 0 <= opPos and opPos+1 < len(operators)")
		}
		return true
	})
	if nOp == 0 {
		c.Violation(key+"#operand-level", fd.Pos(), "parseUnary never parses the operand at the level above opPos: prefix operators that are also binary bind like pure prefix operators")
	}
	// the entry level: parseOp(0) needs a non empty table
	if pe := c.FuncDecl(root, "Parser", "parseExpression"); pe != nil {
		ekey := "parser2.Parser.parseExpression#entry-level"
		ge := c.CFG(pe)
		done := false
		ast.Inspect(pe.Body, func(n ast.Node) bool {
			call, ok := n.(*ast.CallExpr)
			if !ok || done {
				return true
			}
			if inner, ok := ast.Unparen(call.Fun).(*ast.CallExpr); ok && nextCall != nil && isCallTo(info, inner, nextCall) && len(inner.Args) == 1 {
				done = true
				lv := env.eval(inner.Args[0])
				c.Check(lv.eq(linConst(-1)), ekey, call.Pos(), "an expression starts at the level above -1, i.e. at the first operator or, without operators, at the unary level", "an expression starts at the level above "+symStr(lv)+" instead of the first operator level: operators of lower priority are never parsed")
				return true
			}
			if isCallTo(info, call, parseOp) && len(call.Args) == 3 {
				done = true
				lv := env.eval(call.Args[1])
				if !lv.eq(linConst(0)) {
					c.Violation(ekey, call.Pos(), "an expression starts at operator level %s instead of 0", symStr(lv))
					return true
				}
				nonEmpty := false
				for _, gd := range ge.Guards(call) {
					if d, ok := condNormal(env, gd.Cond); ok && gd.Val {
						for k := range d.terms {
							// 0 < len  <=> -len < 0
							if strings.HasPrefix(k, "len:") && strings.Contains(k, "operators") && d.eq(symVar(k).neg()) {
								nonEmpty = true
							}
						}
					}
				}
				c.Check(nonEmpty, ekey, call.Pos(), "parseOp(0) under len(operators) > 0", "parseOp(0) is called without a test that there is an operator at all: a parser without binary operators indexes the empty operator table (Go panic on every input)")
			}
			return true
		})
		if !done {
			c.Undecided(ekey, pe.Pos(), "the entry into the operator levels was not found")
		}
	}
	// the other branch: parseNonOperator
	nNon := 0
	ast.Inspect(fd.Body, func(n ast.Node) bool {
		if call, ok := n.(*ast.CallExpr); ok && isCallTo(info, call, parseNonOp) {
			nNon++
		}
		return true
	})
	c.Check(nNon >= 2, key+"#pure-prefix", fd.Pos(), "pure prefix operators and operands without prefix go to parseNonOperator", "parseUnary does not fall back to parseNonOperator on both remaining paths")

	// Parse: opPos is the index of the operator with the same spelling, for every such prefix operator
	pkey := "parser2.Parser.Parse#opPos"
	pinfo := info
	var store *ast.AssignStmt
	var storeHost ast.Node = parse
	findStore := func(body ast.Node) {
		ast.Inspect(body, func(n ast.Node) bool {
			if as, ok := n.(*ast.AssignStmt); ok && len(as.Lhs) == 1 {
				if sel, ok := ast.Unparen(as.Lhs[0]).(*ast.SelectorExpr); ok && sel.Sel.Name == "opPos" {
					store = as
				}
			}
			return true
		})
	}
	findStore(parse.Body)
	if store == nil {
		// the set-up may live in a method of the parser that Parse calls (setupOperators)
		ast.Inspect(parse.Body, func(n ast.Node) bool {
			call, ok := n.(*ast.CallExpr)
			if !ok || store != nil {
				return true
			}
			if cal := Callee(info, call); cal != nil && cal.Pkg() == root.Types {
				if hd := findFuncDecl(root, cal); hd != nil && hd.Body != nil && hd.Recv != nil && recvTypeName(hd.Recv.List[0].Type) == "Parser" && hd != parse {
					findStore(hd.Body)
					if store != nil {
						storeHost = hd
					}
				}
			}
			return true
		})
	}
	if store == nil {
		c.Violation(pkey, parse.Pos(), "Parse never records the operator position of a prefix operator")
		return
	}
	// enclosing range over p.operators whose key is the stored value
	var opsLoop *ast.RangeStmt
	for q := c.Parent(store); q != nil && q != storeHost; q = c.Parent(q) {
		if rs, ok := q.(*ast.RangeStmt); ok {
			if sel, ok := ast.Unparen(rs.X).(*ast.SelectorExpr); ok && sel.Sel.Name == "operators" {
				opsLoop = rs
			}
		}
	}
	if opsLoop == nil {
		c.Violation(pkey, store.Pos(), "opPos is not assigned inside a loop over the operator table")
		return
	}
	kid, _ := opsLoop.Key.(*ast.Ident)
	vid, _ := ast.Unparen(store.Rhs[0]).(*ast.Ident)
	if kid == nil || vid == nil || pinfo.ObjectOf(kid) != pinfo.ObjectOf(vid) {
		c.Violation(pkey, store.Pos(), "opPos is set to %s, not to the index of the operator in the table", nodeStr(c.Fset, store.Rhs[0]))
		return
	}
	// no early exit from the loop over the operators
	early := containsNode(opsLoop.Body, func(n ast.Node) bool {
		switch t := n.(type) {
		case *ast.BranchStmt:
			return t.Tok == token.BREAK || t.Tok == token.GOTO
		case *ast.ReturnStmt:
			return true
		}
		return false
	})
	if early {
		c.Violation(pkey, opsLoop.Pos(), "the loop that matches prefix operators with the operator table is left early (break/return): only some of the prefix operators that are also binary get their position, the others are treated as pure prefix operators")
		return
	}
	// guarded by equality of the spellings
	guarded := c.hasGuard(store, true, func(e ast.Expr) bool {
		be, ok := e.(*ast.BinaryExpr)
		if ok && be.Op == token.EQL {
			tx, ty := pinfo.TypeOf(be.X), pinfo.TypeOf(be.Y)
			if tx != nil && ty != nil {
				bx, ok1 := tx.Underlying().(*types.Basic)
				by, ok2 := ty.Underlying().(*types.Basic)
				return ok1 && ok2 && bx.Kind() == types.String && by.Kind() == types.String
			}
		}
		if id, ok := e.(*ast.Ident); ok && id.Name == "ok" {
			return true // map lookup form
		}
		return false
	})
	c.Check(guarded, pkey, store.Pos(), "every prefix operator whose spelling equals a binary operator gets that operator's table index", "opPos is assigned without comparing the spellings of prefix and binary operator")
}

// ---------------------------------------------------------------------------
// R03.4 EOF check after the top level expression

func ruleR034(c *Ctx) {
	root := c.Pkg("")
	pa := c.parserAnchors()
	if root == nil || len(pa.missing) > 0 {
		c.Undecided("parser2.Tokenizer", token.NoPos, "anchors not found")
		return
	}
	info := root.TypesInfo
	parse := c.FuncDecl(root, "Parser", "Parse")
	parseLet := LookupMethod(root, "Parser", "parseLet")
	if parse == nil || parseLet == nil {
		c.Undecided("parser2.Parser.Parse/parseLet", token.NoPos, "anchor not found")
		return
	}
	g := c.CFG(parse)
	var topCall *ast.CallExpr
	inspectNoLit(parse.Body, func(n ast.Node) bool {
		if call, ok := n.(*ast.CallExpr); ok && isCallTo(info, call, parseLet) {
			topCall = call
		}
		return true
	})
	if topCall == nil {
		c.Undecided("parser2.Parser.Parse#top-level-parse", parse.Pos(), "call of parseLet not found")
		return
	}
	n := 0
	inspectNoLit(parse.Body, func(x ast.Node) bool {
		r, ok := x.(*ast.ReturnStmt)
		if !ok || len(r.Results) != 2 {
			return true
		}
		if id, ok := ast.Unparen(r.Results[0]).(*ast.Ident); ok && id.Name == "nil" {
			return true
		}
		n++
		key := fmt.Sprintf("parser2.Parser.Parse#success-return[%d]", n)
		okEof := false
		for _, gd := range g.Guards(r) {
			be, ok := ast.Unparen(gd.Cond).(*ast.BinaryExpr)
			if !ok {
				continue
			}
			sel, ok1 := ast.Unparen(be.X).(*ast.SelectorExpr)
			cid, ok2 := ast.Unparen(be.Y).(*ast.Ident)
			if !ok1 || !ok2 || sel.Sel.Name != "typ" || cid.Name != "tEof" {
				continue
			}
			if !((be.Op == token.NEQ && !gd.Val) || (be.Op == token.EQL && gd.Val)) {
				continue
			}
			// the token was taken after the top level parse
			tid, ok := ast.Unparen(sel.X).(*ast.Ident)
			if !ok {
				continue
			}
			as, _ := definingAssign(info, parse, info.ObjectOf(tid))
			if as == nil || len(as.Rhs) != 1 {
				continue
			}
			call, ok := ast.Unparen(as.Rhs[0]).(*ast.CallExpr)
			if !ok || !(isCallTo(info, call, pa.next) || isCallTo(info, call, pa.peek)) {
				continue
			}
			if g.Dominates(topCall, call) {
				okEof = true
			}
		}
		c.Check(okEof, key, r.Pos(), "an AST is returned only if the token behind the top level expression is EOF", "Parse can return an AST without having seen EOF behind the top level expression: trailing tokens are silently ignored")
		return true
	})
	if n == 0 {
		c.Undecided("parser2.Parser.Parse#success-return", parse.Pos(), "no success return found")
	}
}

// ---------------------------------------------------------------------------
// R03.5 token consumption discipline

func ruleR035(c *Ctx) {
	root := c.Pkg("")
	pa := c.parserAnchors()
	if root == nil || len(pa.missing) > 0 {
		c.Undecided("parser2.Tokenizer", token.NoPos, "anchors not found")
		return
	}
	info := root.TypesInfo
	isPeekDerived := func(fd *ast.FuncDecl, e ast.Node) bool {
		found := false
		ast.Inspect(e, func(n ast.Node) bool {
			switch t := n.(type) {
			case *ast.CallExpr:
				if isCallTo(info, t, pa.peek) || isCallTo(info, t, pa.peekpeek) {
					found = true
				}
			case *ast.Ident:
				if obj := info.ObjectOf(t); obj != nil {
					if as, i := definingAssign(info, fd, obj); as != nil && len(as.Rhs) == len(as.Lhs) {
						if call, ok := ast.Unparen(as.Rhs[i]).(*ast.CallExpr); ok && (isCallTo(info, call, pa.peek) || isCallTo(info, call, pa.peekpeek)) {
							found = true
						}
					}
				}
			}
			return !found
		})
		return found
	}
	for _, f := range root.Syntax {
		for _, d := range f.Decls {
			fd, ok := d.(*ast.FuncDecl)
			if !ok || fd.Body == nil || fd.Recv == nil || recvTypeName(fd.Recv.List[0].Type) != "Parser" {
				continue
			}
			g := c.CFG(fd)
			fname := declName(root, fd)
			isNext := func(n ast.Node) bool {
				call, ok := n.(*ast.CallExpr)
				return ok && isCallTo(info, call, pa.next)
			}
			inspectNoLit(fd.Body, func(n ast.Node) bool {
				call, ok := n.(*ast.CallExpr)
				if !ok || !isCallTo(info, call, pa.next) {
					return true
				}
				key := fmt.Sprintf("%s#Next[%d]", fname, ordinalIn(fd, call, isNext))
				// how is the result used?
				parent := c.Parent(call)
				var tokObj types.Object
				var stmt ast.Node
				switch p := parent.(type) {
				case *ast.ExprStmt:
					stmt = p
				case *ast.AssignStmt:
					if len(p.Lhs) == 1 {
						if id, ok := p.Lhs[0].(*ast.Ident); ok && id.Name != "_" {
							tokObj = info.ObjectOf(id)
						}
					}
					stmt = p
				default:
					// used inside an expression: tokenizer.Next().typ == x
					if sel, ok := parent.(*ast.SelectorExpr); ok && sel.Sel.Name == "typ" {
						c.OK(key, call.Pos(), "the type of the consumed token is tested directly")
						return true
					}
					c.Undecided(key, call.Pos(), "use of the consumed token not understood")
					return true
				}
				// is the consumed token identified by a Peek test that selects this path,
				// with no other token consumed between the test and this Next?
				just := false
				thisNode := ast.Node(call)
				if blk, idx, ok := g.Pos(call); ok {
					thisNode = blk.Nodes[idx]
				}
				consumes := func(x ast.Node) bool {
					if x == thisNode {
						return false
					}
					return containsNode(x, func(y ast.Node) bool {
						cc, ok := y.(*ast.CallExpr)
						if !ok || cc == call {
							return false
						}
						if isCallTo(info, cc, pa.next) {
							return true
						}
						for _, a := range cc.Args {
							if isNamed(info.TypeOf(a), modPath, "Tokenizer") {
								return true
							}
						}
						return false
					})
				}
				reachesUnconsumed := func(from ast.Node) bool {
					blk, idx, ok := g.Pos(from)
					if !ok {
						return false
					}
					found, _ := g.PathAvoiding(blk.Nodes[idx], func(x ast.Node) bool { return x == thisNode }, consumes)
					return found
				}
				for _, gd := range g.Guards(call) {
					if isPeekDerived(fd, gd.Cond) && reachesUnconsumed(gd.Cond) {
						just = true
					}
				}
				for q := c.Parent(call); q != nil && q != fd && !just; q = c.Parent(q) {
					if cc, ok := q.(*ast.CaseClause); ok {
						if sw, ok := c.Parent(c.Parent(cc)).(*ast.SwitchStmt); ok && sw.Tag != nil && isPeekDerived(fd, sw.Tag) && len(cc.List) > 0 && reachesUnconsumed(sw.Tag) {
							just = true
						}
					}
				}
				if just {
					c.OK(key, call.Pos(), "the consumed token was identified by a Peek test that selects this path")
					return true
				}
				if tokObj == nil {
					c.Violation(key, call.Pos(), "a token is consumed and discarded without a preceding Peek test that identifies it: a wrong token (closing bracket, separator, keyword) can be swallowed silently")
					return true
				}
				// result kept: its typ has to be examined before any success return / before it is overwritten
				mentionsTyp := func(x ast.Node, field string) bool {
					return containsNode(x, func(y ast.Node) bool {
						// the token handed to a pure predicate of the package whose body looks at that field: isArrow(t)
						if call, ok := y.(*ast.CallExpr); ok && guardInline != nil {
							if inl := guardInline(call); inl != nil {
								if containsNode(inl, func(z ast.Node) bool {
									sel, ok := z.(*ast.SelectorExpr)
									if !ok || sel.Sel.Name != field {
										return false
									}
									id, ok := ast.Unparen(sel.X).(*ast.Ident)
									return ok && info.ObjectOf(id) == tokObj
								}) {
									return true
								}
							}
						}
						sel, ok := y.(*ast.SelectorExpr)
						if !ok || sel.Sel.Name != field {
							return false
						}
						id, ok := ast.Unparen(sel.X).(*ast.Ident)
						return ok && info.ObjectOf(id) == tokObj
					})
				}
				isSuccess := func(x ast.Node) bool {
					r, ok := x.(*ast.ReturnStmt)
					if !ok || len(r.Results) == 0 {
						return false
					}
					last, ok := ast.Unparen(r.Results[len(r.Results)-1]).(*ast.Ident)
					if !ok || last.Name != "nil" {
						return false
					}
					return true
				}
				overwrites := func(x ast.Node) bool {
					as, ok := x.(*ast.AssignStmt)
					if !ok || x == stmt {
						return false
					}
					for _, l := range as.Lhs {
						if id, ok := l.(*ast.Ident); ok && info.ObjectOf(id) == tokObj {
							return true
						}
					}
					return false
				}
				found, trail := g.PathAvoiding(stmt, func(x ast.Node) bool { return isSuccess(x) || overwrites(x) }, func(x ast.Node) bool { return mentionsTyp(x, "typ") })
				if found {
					where := ""
					if len(trail) > 0 {
						where = " (reaches " + c.posStr(trail[len(trail)-1].Pos()) + ")"
					}
					c.Violation(key, call.Pos(), "the token %s taken by Next is not type checked on a path to a successful return%s: a malformed program (missing bracket, separator or keyword) is accepted", tokObj.Name(), where)
					return true
				}
				// tokens whose spelling matters: a test for keyword / operator type has to be accompanied by a test of the spelling
				needsImage := false
				var bad ast.Node
				ast.Inspect(fd.Body, func(y ast.Node) bool {
					be, ok := y.(*ast.BinaryExpr)
					if !ok || (be.Op != token.EQL && be.Op != token.NEQ) || !mentionsTyp(be.X, "typ") {
						return true
					}
					id, ok := ast.Unparen(be.Y).(*ast.Ident)
					if !ok || (id.Name != "tKeyWord" && id.Name != "tOperate") || !g.Dominates(stmt, be) {
						return true
					}
					// this comparison concerns the token of this Next only if no overwrite lies between
					if ov, _ := g.PathAvoiding(stmt, func(x ast.Node) bool { return containsNode(x, func(z ast.Node) bool { return z == be }) }, overwrites); !ov {
						return true
					}
					needsImage = true
					blk, idx, ok := g.Pos(be)
					if !ok {
						return true
					}
					node := blk.Nodes[idx]
					if mentionsTyp(node, "image") {
						return true
					}
					if found, _ := g.PathAvoiding(node, func(x ast.Node) bool { return isSuccess(x) || overwrites(x) }, func(x ast.Node) bool { return mentionsTyp(x, "image") }); found {
						bad = be
					}
					return true
				})
				if bad != nil {
					c.Violation(key, bad.Pos(), "the keyword/operator token %s is accepted by its type only (%s); its spelling is not tested on a path to a successful return", tokObj.Name(), nodeStr(c.Fset, bad))
					return true
				}
				// the tests have to *establish* the type (and the spelling) on every path to a successful return: a path on
				// which no branch edge implies tok.typ == <constant> (resp. tok.image == <constant>) accepts any token.
				// Facts are taken per edge: `a != x || b != y` false gives both equalities, `a != x && b != y` false gives none.
				establishes := func(field string) func(cond ast.Expr, val bool) bool {
					return func(cond ast.Expr, val bool) bool {
						var leaves []Guard
						expandGuard(cond, val, &leaves)
						for _, gd := range leaves {
							be, ok := ast.Unparen(gd.Cond).(*ast.BinaryExpr)
							if !ok || be.Op != token.EQL || !gd.Val {
								continue
							}
							for _, side := range []ast.Expr{be.X, be.Y} {
								if sel, ok := ast.Unparen(side).(*ast.SelectorExpr); ok && sel.Sel.Name == field {
									if id, ok := ast.Unparen(sel.X).(*ast.Ident); ok && info.ObjectOf(id) == tokObj {
										return false // edge establishes the fact: not admitted on a bad path
									}
								}
							}
						}
						return true
					}
				}
				stop := func(x ast.Node) bool { return overwrites(x) }
				if bad, at := g.PathEdgesFromNode(stmt, isSuccess, stop, establishes("typ")); bad {
					c.Violation(key, call.Pos(), "there is a path from the consumption of %s to a successful return (%s) on which no test establishes the type of the token (the conditions mention it, but their outcome on this path does not imply typ == <expected>): a wrong token is accepted in this position", tokObj.Name(), c.posStr(at.Pos()))
					return true
				}
				if needsImage {
					// only where the established type is keyword/operator the spelling matters: look for a path that establishes
					// no spelling at all although every type test on it concerns a keyword/operator token
					typKW := func(cond ast.Expr, val bool) bool {
						var leaves []Guard
						expandGuard(cond, val, &leaves)
						for _, gd := range leaves {
							be, ok := ast.Unparen(gd.Cond).(*ast.BinaryExpr)
							if !ok || be.Op != token.EQL || !gd.Val {
								continue
							}
							if sel, ok := ast.Unparen(be.X).(*ast.SelectorExpr); ok && sel.Sel.Name == "typ" {
								if id, ok := ast.Unparen(sel.X).(*ast.Ident); ok && info.ObjectOf(id) == tokObj {
									if k, ok := ast.Unparen(be.Y).(*ast.Ident); ok && k.Name != "tKeyWord" && k.Name != "tOperate" {
										return false // the token is established to be of a kind whose spelling does not matter: not a bad path
									}
								}
							}
						}
						return establishes("image")(cond, val)
					}
					if bad, at := g.PathEdgesFromNode(stmt, isSuccess, stop, typKW); bad {
						c.Violation(key, call.Pos(), "there is a path from the consumption of the keyword/operator token %s to a successful return (%s) on which no test establishes its spelling (the conditions mention it, but their outcome on this path does not imply image == <expected>): any keyword or operator is accepted in this position", tokObj.Name(), c.posStr(at.Pos()))
						return true
					}
				}
				c.OK(key, call.Pos(), "the consumed token %s is type checked%s on every path to a successful return", tokObj.Name(), map[bool]string{true: " and its spelling tested", false: ""}[needsImage])
				return true
			})
		}
	}
}

// ---------------------------------------------------------------------------
// R03.6 implicit multiplication only in comfort mode

func ruleR036(c *Ctx) {
	root := c.Pkg("")
	if root == nil {
		c.Undecided("package parser2", token.NoPos, "not found")
		return
	}
	info := root.TypesInfo
	run := c.FuncDecl(root, "Tokenizer", "run")
	if run == nil {
		c.Undecided("parser2.Tokenizer.run", token.NoPos, "not found")
		return
	}
	// variables of type TokenType that remember the previous token
	n := 0
	ast.Inspect(run.Body, func(x ast.Node) bool {
		as, ok := x.(*ast.AssignStmt)
		if !ok || len(as.Lhs) != 1 || len(as.Rhs) != 1 || as.Tok != token.ASSIGN {
			return true
		}
		id, ok := as.Lhs[0].(*ast.Ident)
		if !ok || !isNamed(info.TypeOf(id), modPath, "TokenType") {
			return true
		}
		rid, ok := ast.Unparen(as.Rhs[0]).(*ast.Ident)
		if !ok {
			return true
		}
		if _, isConst := info.ObjectOf(rid).(*types.Const); !isConst || rid.Name == "tInvalid" {
			return true
		}
		n++
		key := fmt.Sprintf("parser2.Tokenizer.run#remember-token[%d]:%s", n, rid.Name)
		guarded := c.hasGuard(as, true, func(e ast.Expr) bool {
			sel, ok := e.(*ast.SelectorExpr)
			return ok && sel.Sel.Name == "comfortEnabled"
		})
		c.Check(guarded, key, as.Pos(), "the previous token kind is remembered (enabling an implicit '*') only in comfort mode", "the token kind "+rid.Name+" is remembered outside comfort mode: the tokenizer inserts an implicit '*' in front of the next token, so malformed input like '1 2' or '2 b' is accepted and regrouped")
		return true
	})
	if n == 0 {
		c.Undecided("parser2.Tokenizer.run#remember-token", run.Pos(), "no assignment remembering a token kind found")
	}
}

// ---------------------------------------------------------------------------
// R03.7 the parser is purely constructive

func ruleR037(c *Ctx) {
	root := c.Pkg("")
	if root == nil {
		c.Undecided("package parser2", token.NoPos, "not found")
		return
	}
	info := root.TypesInfo
	n := 0
	for _, f := range root.Syntax {
		for _, d := range f.Decls {
			fd, ok := d.(*ast.FuncDecl)
			if !ok || fd.Body == nil || fd.Recv == nil || recvTypeName(fd.Recv.List[0].Type) != "Parser" {
				continue
			}
			fname := declName(root, fd)
			k := 0
			ast.Inspect(fd.Body, func(x ast.Node) bool {
				var operand ast.Expr
				var target ast.Expr
				switch t := x.(type) {
				case *ast.TypeAssertExpr:
					operand, target = t.X, t.Type
				default:
					return true
				}
				if !isNamed(info.TypeOf(operand), modPath, "AST") {
					return true
				}
				n++
				k++
				key := fmt.Sprintf("%s#ast-shape-test[%d]", fname, k)
				tname := "type switch"
				if target != nil {
					tname = nodeStr(c.Fset, target)
				}
				if target != nil {
					if st, ok := ast.Unparen(target).(*ast.StarExpr); ok && isNamed(info.TypeOf(st.X), modPath, "Const") {
						c.OK(key, x.Pos(), "the only shape test on a parsed operand is the constant test of let/func values")
						return true
					}
				}
				if target == nil {
					// type switch: which node kinds does it tell apart?
					var ts *ast.TypeSwitchStmt
					for q := c.Parent(x); q != nil && ts == nil; q = c.Parent(q) {
						if t, ok := q.(*ast.TypeSwitchStmt); ok {
							ts = t
						}
						if _, isBlock := q.(*ast.BlockStmt); isBlock {
							break
						}
					}
					if ts != nil {
						onlyConst, any := true, false
						for _, cl := range ts.Body.List {
							for _, e := range cl.(*ast.CaseClause).List {
								any = true
								st, ok := ast.Unparen(e).(*ast.StarExpr)
								if !ok || !isNamed(info.TypeOf(st.X), modPath, "Const") {
									onlyConst = false
								}
							}
						}
						if any && onlyConst {
							c.OK(key, x.Pos(), "the only shape test on a parsed operand is the constant test of let/func values (type switch with the single case *Const)")
							return true
						}
					}
				}
				c.Violation(key, x.Pos(), "the parser decides on the node kind of an already parsed operand (%s): parentheses leave no trace in the AST, so (x)(y)/(x).y and x(y)/x.y are grouped alike and explicit parentheses are not honoured", tname)
				return true
			})
		}
	}
	if n == 0 {
		c.Note("parser2.Parser#ast-shape-tests", token.NoPos, "no shape tests on parsed operands")
	}
}

// ---------------------------------------------------------------------------
// R03.9 a consumed postfix opener always builds its node

// ruleR039: in the postfix loop of parseNonOperator every clause that has
// consumed an opener ('.', '(' or '[') must, on every path that does not
// return an error, replace the current expression by a node built around it
// (MapAccess, MethodCall, FunctionCall, ListAccess). A path that builds
// nothing accepts the brackets silently: a[] would parse like a.
// Structured must-analysis: an assignment inside a loop body does not count
// (the loop may run zero times).
func ruleR039(c *Ctx) {
	root := c.Pkg("")
	if root == nil {
		c.Undecided("package parser2", token.NoPos, "not found")
		return
	}
	info := root.TypesInfo
	fd := c.FuncDecl(root, "Parser", "parseNonOperator")
	if fd == nil {
		c.Undecided("parser2.Parser.parseNonOperator", token.NoPos, "not found")
		return
	}
	var sw *ast.SwitchStmt
	ast.Inspect(fd.Body, func(x ast.Node) bool {
		if fs, ok := x.(*ast.ForStmt); ok && sw == nil {
			for _, s := range fs.Body.List {
				if t, ok := s.(*ast.SwitchStmt); ok {
					sw = t
				}
			}
		}
		return true
	})
	if sw == nil {
		c.Undecided("parser2.Parser.parseNonOperator#postfix-loop", fd.Pos(), "postfix loop not found")
		return
	}
	// the variable holding the current expression: the one returned by the default clause
	var exprObj types.Object
	for _, cl := range sw.Body.List {
		cc := cl.(*ast.CaseClause)
		if cc.List == nil {
			for _, s := range cc.Body {
				if r, ok := s.(*ast.ReturnStmt); ok && len(r.Results) == 2 {
					if id, ok := ast.Unparen(r.Results[0]).(*ast.Ident); ok {
						exprObj = info.ObjectOf(id)
					}
				}
			}
		}
	}
	if exprObj == nil {
		c.Undecided("parser2.Parser.parseNonOperator#postfix-loop", sw.Pos(), "the default clause does not return the current expression")
		return
	}
	isBuild := func(s ast.Stmt) bool {
		as, ok := s.(*ast.AssignStmt)
		if !ok || len(as.Lhs) != 1 || len(as.Rhs) != 1 {
			return false
		}
		id, ok := ast.Unparen(as.Lhs[0]).(*ast.Ident)
		if !ok || info.ObjectOf(id) != exprObj {
			return false
		}
		if call, ok := ast.Unparen(as.Rhs[0]).(*ast.CallExpr); ok {
			// newMapAccess(key, expression, line): the literal lives in a private constructor; one of its fields has to
			// be initialised with the argument that carries the current expression
			cl, argOf := c.ctorLiteral(info, call)
			if cl == nil {
				return false
			}
			for _, el := range cl.Elts {
				kv, ok := el.(*ast.KeyValueExpr)
				if !ok {
					continue
				}
				if id, ok := ast.Unparen(argOf(kv.Value)).(*ast.Ident); ok && info.ObjectOf(id) == exprObj {
					return true
				}
			}
			return false
		}
		u, ok := ast.Unparen(as.Rhs[0]).(*ast.UnaryExpr)
		if !ok || u.Op != token.AND {
			return false
		}
		cl, ok := ast.Unparen(u.X).(*ast.CompositeLit)
		if !ok {
			return false
		}
		// built around the current expression
		return containsNode(cl, func(y ast.Node) bool {
			i2, ok := y.(*ast.Ident)
			return ok && info.ObjectOf(i2) == exprObj
		})
	}
	// returns: built (on every non returning path), returned (no path falls through)
	var walk func(stmts []ast.Stmt, built bool) (bool, bool)
	walk = func(stmts []ast.Stmt, built bool) (bool, bool) {
		for _, s := range stmts {
			switch t := s.(type) {
			case *ast.ReturnStmt:
				return built, true
			case *ast.BranchStmt:
				return built, false
			case *ast.BlockStmt:
				b, r := walk(t.List, built)
				if r {
					return b, true
				}
				built = b
			case *ast.IfStmt:
				b1, r1 := walk(t.Body.List, built)
				b2, r2 := built, false
				if t.Else != nil {
					switch e := t.Else.(type) {
					case *ast.BlockStmt:
						b2, r2 = walk(e.List, built)
					case *ast.IfStmt:
						b2, r2 = walk([]ast.Stmt{e}, built)
					}
				}
				switch {
				case r1 && r2:
					return built, true
				case r1:
					built = b2
				case r2:
					built = b1
				default:
					built = b1 && b2
				}
			case *ast.ForStmt, *ast.RangeStmt, *ast.SwitchStmt, *ast.TypeSwitchStmt, *ast.SelectStmt:
				// may run zero times / not understood: does not establish the node
			default:
				if isBuild(s) {
					built = true
				}
			}
		}
		return built, false
	}
	n := 0
	for _, cl := range sw.Body.List {
		cc := cl.(*ast.CaseClause)
		if cc.List == nil {
			continue
		}
		n++
		key := "parser2.Parser.parseNonOperator#postfix " + nodeStr(c.Fset, cc.List[0])
		built, returned := walk(cc.Body, false)
		if returned || built {
			c.OK(key, cc.Pos(), "every path through the clause that does not return an error builds a node around the current expression")
		} else {
			c.Violation(key, cc.Pos(), "there is a path through the clause for %s that consumes the tokens of the postfix form but builds no node around the expression (e.g. the node is created only inside a loop that may run zero times): input like a[] is accepted and silently parsed like a", nodeStr(c.Fset, cc.List[0]))
		}
	}
	if n < 3 {
		c.Undecided("parser2.Parser.parseNonOperator#postfix-clauses", sw.Pos(), "expected the clauses for '.', '(' and '[', found %d", n)
	}
}
