package main

import (
	"fmt"
	"go/ast"
	"go/token"
	"go/types"
	"sort"
	"strings"
)

// lin is a linear form c + Σ k_i·len(X_i) over slice lengths, or ⊤.
type lin struct {
	c     int
	terms map[string]int
	top   bool
}

func linConst(c int) lin { return lin{c: c} }
func linTop() lin        { return lin{top: true} }

func (a lin) add(b lin) lin {
	if a.top || b.top {
		return linTop()
	}
	r := lin{c: a.c + b.c, terms: map[string]int{}}
	for k, v := range a.terms {
		r.terms[k] += v
	}
	for k, v := range b.terms {
		r.terms[k] += v
	}
	for k, v := range r.terms {
		if v == 0 {
			delete(r.terms, k)
		}
	}
	return r
}

func (a lin) neg() lin {
	if a.top {
		return a
	}
	r := lin{c: -a.c, terms: map[string]int{}}
	for k, v := range a.terms {
		r.terms[k] = -v
	}
	return r
}

func (a lin) sub(b lin) lin { return a.add(b.neg()) }

func (a lin) eq(b lin) bool {
	if a.top || b.top {
		return false
	}
	d := a.sub(b)
	return d.c == 0 && len(d.terms) == 0
}

func (a lin) isConst() (int, bool) {
	if a.top || len(a.terms) != 0 {
		return 0, false
	}
	return a.c, true
}

func (a lin) String() string {
	if a.top {
		return "⊤(not constant)"
	}
	var parts []string
	var keys []string
	for k := range a.terms {
		keys = append(keys, k)
	}
	sort.Strings(keys)
	for _, k := range keys {
		name := k
		if i := strings.Index(name, "@"); i >= 0 {
			name = name[:i]
		}
		if a.terms[k] == 1 {
			parts = append(parts, "len("+name+")")
		} else {
			parts = append(parts, fmt.Sprintf("%d*len(%s)", a.terms[k], name))
		}
	}
	if a.c != 0 || len(parts) == 0 {
		parts = append(parts, fmt.Sprint(a.c))
	}
	return strings.Join(parts, "+")
}

// exprKey returns a key that identifies the storage denoted by a simple
// expression (identifier or field selection chain) by object identity.
func exprKey(info *types.Info, e ast.Expr) (string, bool) {
	switch t := ast.Unparen(e).(type) {
	case *ast.Ident:
		obj := info.ObjectOf(t)
		if obj == nil {
			return "", false
		}
		return fmt.Sprintf("%s@%d", t.Name, obj.Pos()), true
	case *ast.SelectorExpr:
		base, ok := exprKey(info, t.X)
		if !ok {
			return "", false
		}
		name, rest, _ := strings.Cut(base, "@")
		return name + "." + t.Sel.Name + "@" + rest, true
	}
	return "", false
}

// frameWalker counts, along the statement structure of one function body, the
// net number of values pushed on one Stack variable (δ).
type frameWalker struct {
	c        *Ctx
	info     *types.Info
	stackKey string      // exprKey of the tracked variable (identifier or field selection)
	push     *types.Func // funcGen.Stack.Push
	frame    *types.Func // funcGen.Stack.CreateFrame
	lenAlias map[string]lin
	// resultLen, if set, summarises helper calls: the expression whose length the given result of
	// the call has when the call's error result is nil (nil, false if unknown)
	resultLen func(call *ast.CallExpr, result int) (ast.Expr, bool)

	// callbacks
	onCall  func(call *ast.CallExpr, delta lin) // every call expression, before its own effect
	onFrame func(call *ast.CallExpr, delta lin, n lin)
	onExit  func(pos token.Pos, delta lin)
	onLoop  func(pos token.Pos, net lin) // loop body with a net effect that is not the push idiom
	// onLoopNet is called for every loop body whose net effect is not zero
	// (including the push idiom)
	onLoopNet func(body *ast.BlockStmt, pos token.Pos, net lin)
}

type fwState struct {
	d    lin
	dead bool
}

func (w *frameWalker) isStackVar(e ast.Expr) bool {
	k, ok := exprKey(w.info, e)
	return ok && k == w.stackKey
}

// linOf evaluates an int expression to a linear form.
func (w *frameWalker) linOf(e ast.Expr) lin {
	e = ast.Unparen(e)
	if tv, ok := w.info.Types[e]; ok && tv.Value != nil {
		if v, ok := constInt(tv); ok {
			return linConst(v)
		}
	}
	switch t := e.(type) {
	case *ast.CallExpr:
		if id, ok := ast.Unparen(t.Fun).(*ast.Ident); ok && len(t.Args) == 1 {
			if b, ok := w.info.Uses[id].(*types.Builtin); ok && b.Name() == "len" {
				if k, ok := exprKey(w.info, t.Args[0]); ok {
					if a, ok := w.lenAlias[k]; ok {
						return a
					}
					return lin{terms: map[string]int{k: 1}}
				}
			}
		}
	case *ast.BinaryExpr:
		switch t.Op {
		case token.ADD:
			return w.linOf(t.X).add(w.linOf(t.Y))
		case token.SUB:
			return w.linOf(t.X).sub(w.linOf(t.Y))
		}
	case *ast.Ident:
		// a local int variable assigned once from a linear expression
		if k, ok := exprKey(w.info, t); ok {
			if a, ok := w.lenAlias["int:"+k]; ok {
				return a
			}
		}
	}
	return linTop()
}

func constInt(tv types.TypeAndValue) (int, bool) {
	if tv.Value == nil {
		return 0, false
	}
	s := tv.Value.ExactString()
	var v int
	if _, err := fmt.Sscanf(s, "%d", &v); err != nil {
		return 0, false
	}
	if fmt.Sprint(v) != s {
		return 0, false
	}
	return v, true
}

// usesStackVar reports whether the node mentions the tracked variable.
func (w *frameWalker) usesStackVar(n ast.Node) bool {
	found := false
	ast.Inspect(n, func(x ast.Node) bool {
		if e, ok := x.(ast.Expr); ok && w.isStackVar(e) {
			found = true
		}
		return !found
	})
	return found
}

// expr walks an expression in evaluation order (operands before the call).
func (w *frameWalker) expr(e ast.Node, st *fwState) {
	if e == nil || st.dead {
		return
	}
	switch t := e.(type) {
	case *ast.FuncLit:
		// A literal that uses the tracked variable and appears inside an
		// expression is treated as a callback that is invoked synchronously
		// any number of times (the Iter idiom): its body is a loop body.
		if w.usesStackVar(t.Body) {
			w.loopBody(t.Body, t.Pos(), st, nil)
		}
		return
	case *ast.CallExpr:
		w.expr(t.Fun, st)
		for _, a := range t.Args {
			w.expr(a, st)
		}
		if w.onCall != nil {
			w.onCall(t, st.d)
		}
		if sel, ok := ast.Unparen(t.Fun).(*ast.SelectorExpr); ok && w.isStackVar(sel.X) {
			callee := Callee(w.info, t)
			if callee != nil && w.push != nil && callee == w.push.Origin() {
				st.d = st.d.add(linConst(1))
			} else if callee != nil && w.frame != nil && callee == w.frame.Origin() && len(t.Args) == 1 {
				n := w.linOf(t.Args[0])
				if w.onFrame != nil {
					w.onFrame(t, st.d, n)
				}
				st.d = st.d.sub(n)
			}
		}
		return
	case *ast.SelectorExpr:
		w.expr(t.X, st)
		return
	case *ast.BinaryExpr:
		w.expr(t.X, st)
		if t.Op == token.LAND || t.Op == token.LOR {
			// right operand is conditional; it must not change δ
			s2 := *st
			w.expr(t.Y, &s2)
			if !s2.d.eq(st.d) {
				st.d = linTop()
			}
			return
		}
		w.expr(t.Y, st)
		return
	}
	// generic: children in source order
	ast.Inspect(e, func(x ast.Node) bool {
		if x == nil || x == e {
			return true
		}
		switch x.(type) {
		case ast.Expr:
			w.expr(x, st)
			return false
		}
		return true
	})
}

func join(a, b fwState) fwState {
	if a.dead {
		return b
	}
	if b.dead {
		return a
	}
	if a.d.eq(b.d) {
		return a
	}
	return fwState{d: linTop()}
}

// loopBody analyses a loop body. pushOver, if not nil, is the ranged slice:
// a body whose net effect is exactly one push then contributes len(slice).
func (w *frameWalker) loopBody(body *ast.BlockStmt, pos token.Pos, st *fwState, pushOver ast.Expr) {
	entry := st.d
	s := fwState{d: entry}
	w.stmts(body.List, &s)
	if s.dead {
		// the body always leaves (return/break); it runs at most once and
		// the continuation after the loop sees the entry state
		return
	}
	net := s.d.sub(entry)
	if c, ok := net.isConst(); ok && c == 0 {
		return
	}
	if w.onLoopNet != nil {
		w.onLoopNet(body, pos, net)
	}
	if c, ok := net.isConst(); ok && c == 1 && pushOver != nil {
		if k, ok := exprKey(w.info, pushOver); ok {
			l := lin{terms: map[string]int{k: 1}}
			if a, ok := w.lenAlias[k]; ok {
				l = a
			}
			st.d = entry.add(l)
			return
		}
	}
	if w.onLoop != nil {
		w.onLoop(pos, net)
	}
	st.d = linTop()
}

func (w *frameWalker) recordAliases(lhs []ast.Expr, rhs []ast.Expr) {
	if len(lhs) != len(rhs) {
		return
	}
	for i, l := range lhs {
		k, ok := exprKey(w.info, l)
		if !ok {
			continue
		}
		r := ast.Unparen(rhs[i])
		if call, ok := r.(*ast.CallExpr); ok {
			if id, ok := ast.Unparen(call.Fun).(*ast.Ident); ok {
				if b, ok := w.info.Uses[id].(*types.Builtin); ok && b.Name() == "make" && len(call.Args) >= 2 {
					if _, isSlice := w.info.TypeOf(call.Args[0]).Underlying().(*types.Slice); isSlice {
						w.lenAlias[k] = w.linOf(call.Args[1])
						continue
					}
				}
			}
		}
		if t := w.info.TypeOf(l); t != nil {
			if b, ok := t.Underlying().(*types.Basic); ok && b.Info()&types.IsInteger != 0 {
				w.lenAlias["int:"+k] = w.linOf(r)
			}
		}
	}
}

func (w *frameWalker) stmts(list []ast.Stmt, st *fwState) {
	for i, s := range list {
		if st.dead {
			return
		}
		w.stmt(s, st)
		if as, ok := s.(*ast.AssignStmt); ok && w.resultLen != nil && len(as.Rhs) == 1 && len(as.Lhs) >= 2 && i+1 < len(list) {
			w.helperResult(as, list[i+1])
		}
	}
}

// helperResult records the length of a slice returned by a summarised helper:
//
//	xs, err := helper(fs, ...); if err != nil { return ... }
//
// The summary holds for a nil error only, so the error test has to follow directly.
func (w *frameWalker) helperResult(as *ast.AssignStmt, next ast.Stmt) {
	call, ok := ast.Unparen(as.Rhs[0]).(*ast.CallExpr)
	if !ok {
		return
	}
	errID, ok := as.Lhs[len(as.Lhs)-1].(*ast.Ident)
	if !ok {
		return
	}
	ifs, ok := next.(*ast.IfStmt)
	if !ok || ifs.Init != nil || len(ifs.Body.List) == 0 {
		return
	}
	be, ok := ast.Unparen(ifs.Cond).(*ast.BinaryExpr)
	if !ok || be.Op != token.NEQ {
		return
	}
	x, okx := ast.Unparen(be.X).(*ast.Ident)
	y, oky := ast.Unparen(be.Y).(*ast.Ident)
	if !okx || !oky || y.Name != "nil" || w.info.ObjectOf(x) != w.info.ObjectOf(errID) {
		return
	}
	if _, isRet := ifs.Body.List[len(ifs.Body.List)-1].(*ast.ReturnStmt); !isRet {
		return
	}
	for i, l := range as.Lhs[:len(as.Lhs)-1] {
		e, ok := w.resultLen(call, i)
		if !ok {
			continue
		}
		k, ok := exprKey(w.info, l)
		if !ok {
			continue
		}
		if k2, ok := exprKey(w.info, e); ok {
			if a, ok := w.lenAlias[k2]; ok {
				w.lenAlias[k] = a
			} else {
				w.lenAlias[k] = lin{terms: map[string]int{k2: 1}}
			}
		}
	}
}

func (w *frameWalker) stmt(s ast.Stmt, st *fwState) {
	switch t := s.(type) {
	case nil:
	case *ast.BlockStmt:
		w.stmts(t.List, st)
	case *ast.ExprStmt:
		w.expr(t.X, st)
		if call, ok := t.X.(*ast.CallExpr); ok && noReturn(w.info, call) {
			st.dead = true
		}
	case *ast.AssignStmt:
		for _, r := range t.Rhs {
			w.expr(r, st)
		}
		for _, l := range t.Lhs {
			w.expr(l, st)
		}
		w.recordAliases(t.Lhs, t.Rhs)
	case *ast.DeclStmt:
		if gd, ok := t.Decl.(*ast.GenDecl); ok {
			for _, sp := range gd.Specs {
				if vs, ok := sp.(*ast.ValueSpec); ok {
					for _, v := range vs.Values {
						w.expr(v, st)
					}
					var lhs []ast.Expr
					for _, n := range vs.Names {
						lhs = append(lhs, n)
					}
					w.recordAliases(lhs, vs.Values)
				}
			}
		}
	case *ast.IncDecStmt:
		w.expr(t.X, st)
	case *ast.SendStmt:
		w.expr(t.Chan, st)
		w.expr(t.Value, st)
	case *ast.ReturnStmt:
		for _, r := range t.Results {
			w.expr(r, st)
		}
		if w.onExit != nil {
			w.onExit(t.Pos(), st.d)
		}
		st.dead = true
	case *ast.BranchStmt:
		// break/continue/goto: the state is not propagated further on this
		// path; loops are summarised by their net effect, which these paths
		// must not change. goto is not used in the analysed code.
		st.dead = true
	case *ast.IfStmt:
		w.stmt(t.Init, st)
		w.expr(t.Cond, st)
		a := *st
		w.stmt(t.Body, &a)
		b := *st
		if t.Else != nil {
			w.stmt(t.Else, &b)
		}
		*st = join(a, b)
	case *ast.ForStmt:
		w.stmt(t.Init, st)
		if t.Cond != nil {
			w.expr(t.Cond, st)
		}
		body := t.Body
		if t.Post != nil {
			body = &ast.BlockStmt{List: append(append([]ast.Stmt{}, t.Body.List...), t.Post)}
		}
		w.loopBody(body, t.Pos(), st, nil)
		if t.Cond == nil && !containsNode(t.Body, func(n ast.Node) bool {
			b, ok := n.(*ast.BranchStmt)
			return ok && b.Tok == token.BREAK
		}) {
			st.dead = true // for {} without break: only left by return
		}
	case *ast.RangeStmt:
		w.expr(t.X, st)
		var over ast.Expr
		if tx := w.info.TypeOf(t.X); tx != nil {
			if _, ok := tx.Underlying().(*types.Slice); ok {
				over = t.X
			}
		}
		w.loopBody(t.Body, t.Pos(), st, over)
	case *ast.SwitchStmt:
		w.stmt(t.Init, st)
		if t.Tag != nil {
			w.expr(t.Tag, st)
		}
		w.clauses(t.Body, st)
	case *ast.TypeSwitchStmt:
		w.stmt(t.Init, st)
		w.stmt(t.Assign, st)
		w.clauses(t.Body, st)
	case *ast.SelectStmt:
		w.clauses(t.Body, st)
	case *ast.LabeledStmt:
		w.stmt(t.Stmt, st)
	case *ast.DeferStmt:
		w.expr(t.Call, st)
	case *ast.GoStmt:
		w.expr(t.Call, st)
	case *ast.EmptyStmt:
	default:
		st.d = linTop()
	}
}

func (w *frameWalker) clauses(body *ast.BlockStmt, st *fwState) {
	res := fwState{dead: true}
	hasDefault := false
	for _, cl := range body.List {
		s := *st
		switch c := cl.(type) {
		case *ast.CaseClause:
			if c.List == nil {
				hasDefault = true
			}
			for _, e := range c.List {
				w.expr(e, &s)
			}
			w.stmts(c.Body, &s)
		case *ast.CommClause:
			if c.Comm == nil {
				hasDefault = true
			}
			w.stmt(c.Comm, &s)
			w.stmts(c.Body, &s)
		}
		res = join(res, s)
	}
	if !hasDefault {
		res = join(res, *st)
	}
	*st = res
}

// run walks the body starting with δ = 0. If the end of the body is reachable
// onExit is called for it as well.
func (w *frameWalker) run(body *ast.BlockStmt) {
	if w.lenAlias == nil {
		w.lenAlias = map[string]lin{}
	}
	st := fwState{d: linConst(0)}
	w.stmts(body.List, &st)
	if !st.dead && w.onExit != nil {
		w.onExit(body.Rbrace, st.d)
	}
}
