package main

import (
	"fmt"
	"go/ast"
	"go/constant"
	"go/token"
	"go/types"
	"sort"
	"strings"
)

// ---------------------------------------------------------------------------
// R04.1 scanner loops make progress and leave at the end of the input

// advanceState: does a path through a statement list end with the input advanced?
type advWalker struct {
	info     *types.Info
	advance  func(ast.Node) bool // node advances the input
	retreat  func(ast.Node) bool // node puts a rune back
	badPaths []token.Pos         // ends of paths that reach the back edge without advance
	onReturn func(pos token.Pos, advanced bool)
}

type advState struct {
	adv  bool
	dead bool
}

func (w *advWalker) scanExpr(e ast.Node, st *advState) {
	if e == nil {
		return
	}
	// evaluation order approximated by source order of calls (post order for nested calls)
	var calls []ast.Node
	ast.Inspect(e, func(n ast.Node) bool {
		if _, ok := n.(*ast.FuncLit); ok {
			return false
		}
		switch n.(type) {
		case *ast.CallExpr, *ast.AssignStmt:
			calls = append(calls, n)
		}
		return true
	})
	// inner calls first
	sort.SliceStable(calls, func(i, j int) bool { return calls[i].End() < calls[j].End() })
	for _, n := range calls {
		if w.retreat(n) {
			st.adv = false
		}
		if w.advance(n) {
			st.adv = true
		}
	}
}

func (w *advWalker) stmts(list []ast.Stmt, st *advState, loopDepth int) {
	for _, s := range list {
		if st.dead {
			return
		}
		w.stmt(s, st, loopDepth)
	}
}

// stmt: loopDepth counts breakable statements (switch/select/for) nested inside
// the analysed loop body; an unlabeled break at depth 0 leaves the loop.
func (w *advWalker) stmt(s ast.Stmt, st *advState, depth int) {
	switch t := s.(type) {
	case nil:
	case *ast.BlockStmt:
		w.stmts(t.List, st, depth)
	case *ast.ExprStmt:
		w.scanExpr(t.X, st)
		if call, ok := t.X.(*ast.CallExpr); ok && noReturn(w.info, call) {
			st.dead = true
		}
	case *ast.AssignStmt:
		for _, r := range t.Rhs {
			w.scanExpr(r, st)
		}
		if w.advance(t) {
			st.adv = true
		}
	case *ast.DeclStmt, *ast.IncDecStmt, *ast.SendStmt:
		w.scanExpr(t, st)
	case *ast.ReturnStmt:
		if w.onReturn != nil {
			for _, r := range t.Results {
				w.scanExpr(r, st)
			}
			w.onReturn(t.Pos(), st.adv)
		}
		st.dead = true
	case *ast.BranchStmt:
		switch t.Tok {
		case token.CONTINUE:
			if depth >= 0 && t.Label == nil {
				if !st.adv {
					w.badPaths = append(w.badPaths, t.Pos())
				}
			}
			st.dead = true
		case token.BREAK:
			st.dead = true // leaves the loop or an inner switch; handled by the caller for inner switches
		default:
			st.dead = true
		}
	case *ast.IfStmt:
		w.stmt(t.Init, st, depth)
		w.scanExpr(t.Cond, st)
		a := *st
		w.stmt(t.Body, &a, depth)
		b := *st
		if t.Else != nil {
			w.stmt(t.Else, &b, depth)
		}
		*st = joinAdv(a, b)
	case *ast.SwitchStmt:
		w.stmt(t.Init, st, depth)
		if t.Tag != nil {
			w.scanExpr(t.Tag, st)
		}
		w.clauses(t.Body, st, depth)
	case *ast.TypeSwitchStmt:
		w.stmt(t.Init, st, depth)
		w.clauses(t.Body, st, depth)
	case *ast.ForStmt, *ast.RangeStmt:
		// an inner loop may run zero times: it contributes nothing for certain;
		// it is analysed on its own
	case *ast.LabeledStmt:
		w.stmt(t.Stmt, st, depth)
	default:
	}
}

func joinAdv(a, b advState) advState {
	if a.dead {
		return b
	}
	if b.dead {
		return a
	}
	return advState{adv: a.adv && b.adv}
}

func (w *advWalker) clauses(body *ast.BlockStmt, st *advState, depth int) {
	res := advState{dead: true}
	hasDefault := false
	for _, cl := range body.List {
		cc, ok := cl.(*ast.CaseClause)
		if !ok {
			continue
		}
		if cc.List == nil {
			hasDefault = true
		}
		s := *st
		// a break inside a case only leaves the switch: re-enable the path afterwards
		brk := &breakScan{}
		w.stmtsWithBreak(cc.Body, &s, depth+1, brk)
		res = joinAdv(res, s)
		for _, b := range brk.states {
			res = joinAdv(res, b)
		}
	}
	if !hasDefault {
		res = joinAdv(res, *st)
	}
	*st = res
}

type breakScan struct{ states []advState }

// stmtsWithBreak treats an unlabeled break as the end of the enclosing switch.
func (w *advWalker) stmtsWithBreak(list []ast.Stmt, st *advState, depth int, brk *breakScan) {
	for _, s := range list {
		if st.dead {
			return
		}
		if b, ok := s.(*ast.BranchStmt); ok && b.Tok == token.BREAK && b.Label == nil {
			brk.states = append(brk.states, *st)
			st.dead = true
			return
		}
		if ifs, ok := s.(*ast.IfStmt); ok {
			w.stmt(ifs.Init, st, depth)
			w.scanExpr(ifs.Cond, st)
			a := *st
			w.stmtsWithBreak(ifs.Body.List, &a, depth, brk)
			b := *st
			switch e := ifs.Else.(type) {
			case *ast.BlockStmt:
				w.stmtsWithBreak(e.List, &b, depth, brk)
			case *ast.IfStmt:
				w.stmtsWithBreak([]ast.Stmt{e}, &b, depth, brk)
			}
			*st = joinAdv(a, b)
			continue
		}
		w.stmt(s, st, depth)
	}
}

func ruleR041(c *Ctx) {
	root := c.Pkg("")
	if root == nil {
		c.Undecided("package parser2", token.NoPos, "not found")
		return
	}
	info := root.TypesInfo
	tokType := LookupType(root, "Tokenizer")
	if tokType == nil {
		c.Undecided("parser2.Tokenizer", token.NoPos, "not found")
		return
	}
	method := func(name string) *types.Func { return LookupMethod(root, "Tokenizer", name) }
	next, consume, unread, peek := method("next"), method("consume"), method("unread"), method("peek")
	read, readSkip, readStr, parseOperator := method("read"), method("readSkip"), method("readStr"), method("parseOperator")
	for name, m := range map[string]*types.Func{"next": next, "unread": unread, "peek": peek, "read": read, "readSkip": readSkip, "readStr": readStr, "parseOperator": parseOperator} {
		if m == nil {
			c.Undecided("parser2.Tokenizer."+name, token.NoPos, "anchor not found")
			return
		}
	}
	// the sentinel peek returns when the input is exhausted
	peekDecl := c.FuncDecl(root, "Tokenizer", "peek")
	var sentinel constant.Value
	gp := c.CFG(peekDecl)
	inspectNoLit(peekDecl.Body, func(n ast.Node) bool {
		r, ok := n.(*ast.ReturnStmt)
		if !ok || len(r.Results) != 1 {
			return true
		}
		tv := info.Types[r.Results[0]]
		if tv.Value == nil {
			return true
		}
		for _, gd := range gp.Guards(r) {
			if isLenZeroTest(info, gd.Cond) && gd.Val {
				if sentinel == nil {
					sentinel = tv.Value
				} else if !constant.Compare(sentinel, token.EQL, tv.Value) {
					sentinel = constant.MakeUnknown()
				}
			}
		}
		return true
	})
	if sentinel == nil || sentinel.Kind() == constant.Unknown {
		c.Undecided("parser2.Tokenizer.peek#end-of-input-sentinel", peekDecl.Pos(), "peek does not return one constant under len(t.str)==0")
		return
	}
	c.OK("parser2.Tokenizer.peek#end-of-input-sentinel", peekDecl.Pos(), "peek returns the constant %s when the input is exhausted", sentinel)

	isStrAdvance := func(n ast.Node) bool {
		as, ok := n.(*ast.AssignStmt)
		if !ok || len(as.Lhs) != 1 || len(as.Rhs) != 1 {
			return false
		}
		l, ok := ast.Unparen(as.Lhs[0]).(*ast.SelectorExpr)
		if !ok || l.Sel.Name != "str" {
			return false
		}
		sl, ok := ast.Unparen(as.Rhs[0]).(*ast.SliceExpr)
		if !ok || sl.Low == nil || sl.High != nil {
			return false
		}
		if nodeStr(c.Fset, sl.X) != nodeStr(c.Fset, l) {
			return false
		}
		if tv := info.Types[sl.Low]; tv.Value != nil {
			v, ok := constInt(tv)
			return ok && v > 0
		}
		return true // a decode width (or a sum of widths)
	}
	advancing := []*types.Func{next, read, readSkip, readStr, parseOperator}
	if consume != nil {
		advancing = append(advancing, consume) // may be merged into next
	}
	// wrappers: a Tokenizer method advances if on every path to each of its exits the input is advanced
	// (and not put back afterwards). Derived from the source on every run, to a fixed point.
	for round := 0; round < 3; round++ {
		for _, f := range root.Syntax {
			for _, d := range f.Decls {
				fd, ok := d.(*ast.FuncDecl)
				if !ok || fd.Body == nil || fd.Recv == nil || recvTypeName(fd.Recv.List[0].Type) != "Tokenizer" {
					continue
				}
				obj, _ := info.Defs[fd.Name].(*types.Func)
				known := false
				for _, m := range advancing {
					if m == obj {
						known = true
					}
				}
				if known || obj == nil || obj == unread || obj == peek || fd.Name.Name == "run" {
					continue
				}
				if containsNode(fd.Body, func(x ast.Node) bool {
					switch x.(type) {
					case *ast.GoStmt, *ast.DeferStmt, *ast.FuncLit:
						return true
					}
					return false
				}) {
					continue
				}
				all, some := true, false
				sw := &advWalker{info: info}
				sw.advance = func(n ast.Node) bool {
					if isStrAdvance(n) {
						return true
					}
					call, ok := n.(*ast.CallExpr)
					if !ok {
						return false
					}
					for _, m := range advancing {
						if isCallTo(info, call, m) {
							return true
						}
					}
					return false
				}
				sw.retreat = func(n ast.Node) bool {
					call, ok := n.(*ast.CallExpr)
					return ok && isCallTo(info, call, unread)
				}
				sw.onReturn = func(_ token.Pos, adv bool) {
					some = true
					if !adv {
						all = false
					}
				}
				st := advState{}
				sw.stmts(fd.Body.List, &st, -1)
				if !st.dead {
					some = true
					if !st.adv {
						all = false
					}
				}
				if all && some {
					advancing = append(advancing, obj)
				}
			}
		}
	}
	w := &advWalker{info: info}
	w.advance = func(n ast.Node) bool {
		if isStrAdvance(n) {
			return true
		}
		call, ok := n.(*ast.CallExpr)
		if !ok {
			return false
		}
		for _, m := range advancing {
			if isCallTo(info, call, m) {
				return true
			}
		}
		return false
	}
	w.retreat = func(n ast.Node) bool {
		call, ok := n.(*ast.CallExpr)
		return ok && isCallTo(info, call, unread)
	}

	for _, f := range root.Syntax {
		for _, d := range f.Decls {
			fd, ok := d.(*ast.FuncDecl)
			if !ok || fd.Body == nil || fd.Recv == nil || recvTypeName(fd.Recv.List[0].Type) != "Tokenizer" {
				continue
			}
			fname := declName(root, fd)
			g := c.CFG(fd)
			nLoop := 0
			ast.Inspect(fd.Body, func(n ast.Node) bool {
				loop, ok := n.(*ast.ForStmt)
				if !ok {
					return true
				}
				nLoop++
				key := fmt.Sprintf("%s#loop[%d]", fname, nLoop)
				// loops over tokens (forward) are bounded by their condition on a counter; only rune level loops are examined
				usesInput := containsNode(loop.Body, func(x ast.Node) bool { return w.advance(x) || isStrAdvanceRead(info, x) })
				if !usesInput {
					if loop.Cond != nil {
						c.OK(key+"#progress", loop.Pos(), "counting loop with condition %s; it does not scan the input", nodeStr(c.Fset, loop.Cond))
					} else {
						c.Undecided(key+"#progress", loop.Pos(), "unconditional loop that does not touch the input")
					}
					return true
				}
				// (ii) progress on every path back to the loop head
				w.badPaths = nil
				st := advState{}
				w.stmts(loop.Body.List, &st, 0)
				if !st.dead && !st.adv {
					w.badPaths = append(w.badPaths, loop.Body.Rbrace)
				}
				if loop.Cond != nil {
					// `for cond {}`: the condition decides; require the advance as well
				}
				if len(w.badPaths) == 0 {
					c.OK(key+"#progress", loop.Pos(), "every path back to the loop head advances the input (next/consume/read*/str = str[k:]), and no unread follows the last advance")
				} else {
					c.Violation(key+"#progress", loop.Pos(), "there is a path through the loop body (ending at %s) that does not advance the input: the scanner can spin forever on one rune", c.posStr(w.badPaths[0]))
				}
				// (i) an exit that is taken at the end of the input
				exitOK, how := false, ""
				// form C: the loop condition itself requires remaining input: len(t.str) > k (with the progress shown above the
				// input shrinks with every iteration, so the condition fails at the latest when it is exhausted)
				if loop.Cond != nil {
					var conj []ast.Expr
					conjuncts(loop.Cond, &conj)
					for _, cj := range conj {
						if be, ok := ast.Unparen(cj).(*ast.BinaryExpr); ok && (be.Op == token.GTR || be.Op == token.GEQ || be.Op == token.NEQ) {
							if call, ok := ast.Unparen(be.X).(*ast.CallExpr); ok && len(call.Args) == 1 {
								if id, ok := ast.Unparen(call.Fun).(*ast.Ident); ok && id.Name == "len" {
									if sel, ok := ast.Unparen(call.Args[0]).(*ast.SelectorExpr); ok && sel.Sel.Name == "str" {
										if be.Op != token.GEQ || !isZeroConst(info, be.Y) {
											exitOK, how = true, "the loop condition requires remaining input ("+nodeStr(c.Fset, cj)+")"
										}
									}
								}
							}
						}
					}
				}
				// form D: the loop condition requires the scanned rune to differ from the sentinel, and the rune variable is
				// read again (from an advancing read) inside the loop: `c := t.next(); for c != 0 && valid(c) { …; c = t.next() }`
				if loop.Cond != nil && !exitOK {
					var conj []ast.Expr
					conjuncts(loop.Cond, &conj)
					for _, cj := range conj {
						v, eq, ok := runeConstTest(info, cj)
						if !ok || eq || !constant.Compare(v, token.EQL, sentinel) {
							continue
						}
						be := ast.Unparen(cj).(*ast.BinaryExpr)
						var vid *ast.Ident
						for _, side := range []ast.Expr{be.X, be.Y} {
							if id, ok := ast.Unparen(side).(*ast.Ident); ok && info.Types[side].Value == nil {
								vid = id
							}
						}
						if vid == nil {
							continue
						}
						obj := info.ObjectOf(vid)
						reread := containsNode(loop.Body, func(x ast.Node) bool {
							as, ok := x.(*ast.AssignStmt)
							if !ok || len(as.Lhs) != 1 || len(as.Rhs) != 1 {
								return false
							}
							lid, ok := ast.Unparen(as.Lhs[0]).(*ast.Ident)
							return ok && info.ObjectOf(lid) == obj && containsNode(as.Rhs[0], func(y ast.Node) bool { return w.advance(y) })
						})
						if loop.Post != nil && !reread {
							if as, ok := loop.Post.(*ast.AssignStmt); ok && len(as.Lhs) == 1 && len(as.Rhs) == 1 {
								if lid, ok := ast.Unparen(as.Lhs[0]).(*ast.Ident); ok && info.ObjectOf(lid) == obj && containsNode(as.Rhs[0], func(y ast.Node) bool { return w.advance(y) }) {
									reread = true
								}
							}
						}
						if reread {
							exitOK, how = true, "the loop condition requires the scanned rune to differ from the end-of-input sentinel ("+nodeStr(c.Fset, cj)+"), and the rune is read again in every iteration"
						}
					}
				}
				// form A: an emptiness test len(t.str)==0 whose true edge leaves the loop, on every path that shortens str
				// form B: comparison of the scanned rune with the sentinel, with an exit on that outcome
				ast.Inspect(loop.Body, func(x ast.Node) bool {
					if exitOK {
						return false
					}
					switch t := x.(type) {
					case *ast.ReturnStmt:
						for _, gd := range g.Guards(t) {
							if gd.Cond.Pos() < loop.Pos() || gd.Cond.End() > loop.End() {
								continue
							}
							if isLenZeroTest(info, gd.Cond) && gd.Val {
								exitOK, how = true, "return under len(t.str)==0"
							}
							if v, eq, ok := runeConstTest(info, gd.Cond); ok && constant.Compare(v, token.EQL, sentinel) && (eq == gd.Val) {
								exitOK, how = true, "return when the scanned rune equals the end-of-input sentinel"
							}
						}
					case *ast.CaseClause:
						for _, e := range t.List {
							if tv := info.Types[e]; tv.Value != nil && tv.Value.Kind() == constant.Int && constant.Compare(tv.Value, token.EQL, sentinel) {
								if containsNode(t, func(y ast.Node) bool { _, ok := y.(*ast.ReturnStmt); return ok }) {
									exitOK, how = true, "case of the end-of-input sentinel returns"
								}
							}
						}
					}
					return true
				})
				if !exitOK {
					// form C: the sentinel test is part of a condition whose failing side leaves the loop
					ast.Inspect(loop.Body, func(x ast.Node) bool {
						ifs, ok := x.(*ast.IfStmt)
						if !ok || exitOK {
							return true
						}
						returns := func(n ast.Node) bool {
							return n != nil && containsNode(n, func(y ast.Node) bool { _, ok := y.(*ast.ReturnStmt); return ok })
						}
						// staying in the then branch requires rune != sentinel: the else branch sees the sentinel
						var onTrue, onFalse []Guard
						expandGuard(ifs.Cond, true, &onTrue)
						for _, lf := range onTrue {
							if v, eq, ok := runeConstTest(info, lf.Cond); ok && constant.Compare(v, token.EQL, sentinel) && (eq != lf.Val) {
								if returns(ifs.Else) {
									exitOK, how = true, "the branch taken when the scanned rune is the end-of-input sentinel returns"
								}
							}
						}
						// falling through requires rune != sentinel: the then branch sees the sentinel
						expandGuard(ifs.Cond, false, &onFalse)
						for _, lf := range onFalse {
							if v, eq, ok := runeConstTest(info, lf.Cond); ok && constant.Compare(v, token.EQL, sentinel) && (eq != lf.Val) {
								if returns(ifs.Body) {
									exitOK, how = true, "the branch taken when the scanned rune is the end-of-input sentinel returns"
								}
							}
						}
						return true
					})
				}
				if fd.Name.Name == "parseOperator" && !exitOK {
					c.OK(key+"#end-of-input", loop.Pos(), "bounded independently of the input: every iteration descends one level in the finite operator detector")
					return true
				}
				if exitOK {
					c.OK(key+"#end-of-input", loop.Pos(), "%s", how)
				} else {
					c.Violation(key+"#end-of-input", loop.Pos(), "the loop has no exit that is taken when the input is exhausted (no len(t.str)==0 test and no comparison of the scanned rune with the sentinel %s that peek returns at the end of the input): an unterminated construct at the end of the input makes the tokenizer spin forever", sentinel)
				}
				return true
			})
		}
	}
}

func isStrAdvanceRead(info *types.Info, n ast.Node) bool { return false }

// isLenZeroTest recognises len(x.str) == 0.
func isLenZeroTest(info *types.Info, e ast.Expr) bool {
	be, ok := ast.Unparen(e).(*ast.BinaryExpr)
	if !ok || be.Op != token.EQL {
		return false
	}
	call, ok := ast.Unparen(be.X).(*ast.CallExpr)
	if !ok || len(call.Args) != 1 {
		return false
	}
	if id, ok := ast.Unparen(call.Fun).(*ast.Ident); !ok || id.Name != "len" {
		return false
	}
	if sel, ok := ast.Unparen(call.Args[0]).(*ast.SelectorExpr); !ok || sel.Sel.Name != "str" {
		return false
	}
	tv := info.Types[be.Y]
	v, ok := constInt(tv)
	return ok && v == 0
}

// runeConstTest recognises x == C / x != C for a rune typed x; eq reports
// whether the condition being true means x == C.
func runeConstTest(info *types.Info, e ast.Expr) (constant.Value, bool, bool) {
	be, ok := ast.Unparen(e).(*ast.BinaryExpr)
	if !ok || (be.Op != token.EQL && be.Op != token.NEQ) {
		return nil, false, false
	}
	x, y := be.X, be.Y
	if info.Types[x].Value != nil {
		x, y = y, x
	}
	tv := info.Types[y]
	if tv.Value == nil || tv.Value.Kind() != constant.Int {
		return nil, false, false
	}
	if t := info.TypeOf(x); t == nil {
		return nil, false, false
	} else if b, ok := t.Underlying().(*types.Basic); !ok || b.Kind() != types.Int32 {
		return nil, false, false
	}
	return tv.Value, be.Op == token.EQL, true
}

// ---------------------------------------------------------------------------
// R04.2 parser recursion consumes input

func ruleR042(c *Ctx) {
	root := c.Pkg("")
	pa := c.parserAnchors()
	if root == nil || len(pa.missing) > 0 {
		c.Undecided("parser2.Tokenizer", token.NoPos, "anchors not found")
		return
	}
	info := root.TypesInfo
	nextCallM := LookupMethod(root, "Parser", "nextParserCall")
	parseOp := LookupMethod(root, "Parser", "parseOp")
	decls := map[*types.Func]*ast.FuncDecl{}
	for _, f := range root.Syntax {
		for _, d := range f.Decls {
			if fd, ok := d.(*ast.FuncDecl); ok && fd.Body != nil && fd.Recv != nil && recvTypeName(fd.Recv.List[0].Type) == "Parser" {
				if obj, ok := info.Defs[fd.Name].(*types.Func); ok {
					decls[obj.Origin()] = fd
				}
			}
		}
	}
	takesTokenizer := func(fn *types.Func) bool {
		sig := fn.Type().(*types.Signature)
		for i := 0; i < sig.Params().Len(); i++ {
			if isNamed(sig.Params().At(i).Type(), modPath, "Tokenizer") {
				return true
			}
		}
		return false
	}
	type edge struct {
		from, to *types.Func
		site     ast.Node
		consumes bool
		levelUp  bool
	}
	var edges []edge
	// targets of calls through the value returned by nextParserCall
	var nextTargets []struct {
		fn      *types.Func
		levelUp bool
	}
	if fd := decls[nextCallM.Origin()]; fd != nil {
		ast.Inspect(fd.Body, func(n ast.Node) bool {
			switch t := n.(type) {
			case *ast.CallExpr:
				if cal := Callee(info, t); cal != nil && decls[cal] != nil && takesTokenizer(cal) {
					lu := false
					if cal == parseOp.Origin() && len(t.Args) == 3 {
						if be, ok := ast.Unparen(t.Args[1]).(*ast.BinaryExpr); ok && be.Op == token.ADD {
							lu = true
						}
					}
					nextTargets = append(nextTargets, struct {
						fn      *types.Func
						levelUp bool
					}{cal, lu})
				}
			case *ast.SelectorExpr:
				if s, ok := info.Selections[t]; ok && s.Kind() == types.MethodVal {
					if fn, ok := s.Obj().(*types.Func); ok && decls[fn.Origin()] != nil && takesTokenizer(fn.Origin()) {
						if _, isCall := c.Parent(t).(*ast.CallExpr); !isCall || c.Parent(t).(*ast.CallExpr).Fun != t {
							nextTargets = append(nextTargets, struct {
								fn      *types.Func
								levelUp bool
							}{fn.Origin(), false})
						}
					}
				}
			}
			return true
		})
	}
	for from, fd := range decls {
		if !takesTokenizer(from) {
			continue
		}
		g := c.CFG(fd)
		var nexts []ast.Node
		inspectNoLit(fd.Body, func(n ast.Node) bool {
			if call, ok := n.(*ast.CallExpr); ok && isCallTo(info, call, pa.next) {
				nexts = append(nexts, call)
			}
			return true
		})
		dominatedByNext := func(site ast.Node) bool {
			for _, nx := range nexts {
				if nx != site && g.Dominates(nx, site) {
					return true
				}
			}
			return false
		}
		// variables holding the result of nextParserCall
		nextVars := map[types.Object]bool{}
		inspectNoLit(fd.Body, func(n ast.Node) bool {
			if as, ok := n.(*ast.AssignStmt); ok && len(as.Rhs) == 1 && len(as.Lhs) == 1 {
				if call, ok := ast.Unparen(as.Rhs[0]).(*ast.CallExpr); ok && isCallTo(info, call, nextCallM) {
					if id, ok := as.Lhs[0].(*ast.Ident); ok {
						nextVars[info.ObjectOf(id)] = true
					}
				}
			}
			return true
		})
		inspectNoLit(fd.Body, func(n ast.Node) bool {
			call, ok := n.(*ast.CallExpr)
			if !ok {
				return true
			}
			if cal := Callee(info, call); cal != nil {
				if decls[cal] != nil && takesTokenizer(cal) {
					lu := false
					if cal == parseOp.Origin() && from == parseOp.Origin() {
						lu = false
					}
					edges = append(edges, edge{from: from, to: cal, site: call, consumes: dominatedByNext(call), levelUp: lu})
				}
				return true
			}
			isNext := false
			if id, ok := ast.Unparen(call.Fun).(*ast.Ident); ok && nextVars[info.ObjectOf(id)] {
				isNext = true
			}
			// p.nextParserCall(level)(tokenizer, idents): the result is called at once
			if inner, ok := ast.Unparen(call.Fun).(*ast.CallExpr); ok && isCallTo(info, inner, nextCallM) {
				isNext = true
			}
			if isNext {
				for _, t := range nextTargets {
					edges = append(edges, edge{from: from, to: t.fn, site: call, consumes: dominatedByNext(call), levelUp: t.levelUp})
				}
				return true
			}
			// any other call of a function value that receives the tokenizer is not understood
			for _, a := range call.Args {
				if isNamed(info.TypeOf(a), modPath, "Tokenizer") {
					if _, isSig := info.TypeOf(call.Fun).Underlying().(*types.Signature); isSig {
						c.Undecided(declName(root, fd)+"#dynamic-parser-call", call.Pos(), "call of a parser function value %s that is not the result of nextParserCall", nodeStr(c.Fset, call.Fun))
					}
				}
			}
			return true
		})
	}
	if len(edges) < 15 {
		c.Undecided("parser2.Parser#call-graph", token.NoPos, "only %d edges between parser methods found", len(edges))
		return
	}
	// cycles in the sub graph of edges that neither consume a token nor go one operator level up
	adj := map[*types.Func][]edge{}
	for _, e := range edges {
		if !e.consumes && !e.levelUp {
			adj[e.from] = append(adj[e.from], e)
		}
	}
	color := map[*types.Func]int{}
	var stack []edge
	var cycle []edge
	var dfs func(f *types.Func)
	dfs = func(f *types.Func) {
		color[f] = 1
		for _, e := range adj[f] {
			if cycle != nil {
				return
			}
			if color[e.to] == 1 {
				// found
				cycle = append([]edge{}, stack...)
				cycle = append(cycle, e)
				// cut to the cycle
				for i, s := range cycle {
					if s.from == e.to {
						cycle = cycle[i:]
						break
					}
				}
				return
			}
			if color[e.to] == 0 {
				stack = append(stack, e)
				dfs(e.to)
				stack = stack[:len(stack)-1]
			}
		}
		color[f] = 2
	}
	var funcs []*types.Func
	for f := range decls {
		funcs = append(funcs, f)
	}
	sort.Slice(funcs, func(i, j int) bool { return funcs[i].Name() < funcs[j].Name() })
	for _, f := range funcs {
		if color[f] == 0 && cycle == nil {
			dfs(f)
		}
	}
	nCons := 0
	for _, e := range edges {
		if e.consumes {
			nCons++
		}
	}
	key := "parser2.Parser#recursion-consumes"
	if cycle == nil {
		c.OK(key, token.NoPos, "%d call edges between parser methods, %d of them behind a consumed token; the remaining edges (plus the op→op+1 edge, well founded by R03.1) contain no cycle: every recursion consumes input", len(edges), nCons)
	} else {
		var parts []string
		for _, e := range cycle {
			parts = append(parts, e.from.Name()+"→"+e.to.Name()+"@"+c.posStr(e.site.Pos()))
		}
		c.Violation(key, cycle[0].site.Pos(), "the parser can recurse without consuming a token: %s — unbounded recursion (stack exhaustion) on some input", strings.Join(parts, ", "))
	}
	for _, e := range edges {
		k := fmt.Sprintf("parser2.Parser.%s→%s[%d]", e.from.Name(), e.to.Name(), ordinalIn(decls[e.from], e.site, func(n ast.Node) bool { _, ok := n.(*ast.CallExpr); return ok }))
		kind := "no token consumed before"
		if e.consumes {
			kind = "behind a consumed token"
		} else if e.levelUp {
			kind = "one operator level up"
		}
		c.Note(k, e.site.Pos(), "%s", kind)
	}
}

// ---------------------------------------------------------------------------
// R04.4 no explicit panic reachable from Parse inside package parser2

func ruleR044(c *Ctx) {
	root := c.Pkg("")
	if root == nil {
		c.Undecided("package parser2", token.NoPos, "not found")
		return
	}
	info := root.TypesInfo
	parse := LookupMethod(root, "Parser", "Parse")
	if parse == nil {
		c.Undecided("parser2.Parser.Parse", token.NoPos, "not found")
		return
	}
	decls := map[*types.Func]*ast.FuncDecl{}
	for _, f := range root.Syntax {
		for _, d := range f.Decls {
			if fd, ok := d.(*ast.FuncDecl); ok && fd.Body != nil {
				if obj, ok := info.Defs[fd.Name].(*types.Func); ok {
					decls[obj.Origin()] = fd
				}
			}
		}
	}
	optimize := LookupFunc(root, "Optimize")
	seen := map[*types.Func]bool{}
	work := []*types.Func{parse.Origin()}
	for len(work) > 0 {
		f := work[len(work)-1]
		work = work[:len(work)-1]
		if seen[f] {
			continue
		}
		seen[f] = true
		fd := decls[f]
		if fd == nil {
			continue
		}
		if optimize != nil && f == optimize.Origin() {
			continue // recovers (R02.5)
		}
		ast.Inspect(fd.Body, func(n ast.Node) bool {
			switch t := n.(type) {
			case *ast.CallExpr:
				if cal := Callee(info, t); cal != nil && decls[cal] != nil {
					work = append(work, cal)
				}
				if id, ok := ast.Unparen(t.Fun).(*ast.Ident); ok {
					if b, ok := info.Uses[id].(*types.Builtin); ok && b.Name() == "panic" {
						c.Violation(fmt.Sprintf("%s#panic", declName(root, fd)), t.Pos(), "explicit panic reachable from Parser.Parse: a program text can make Parse/Generate panic instead of returning an error")
					}
				}
			case *ast.SelectorExpr:
				// method values (p.parseUnary) and interface dispatch inside the package
				if s, ok := info.Selections[t]; ok {
					if fn, ok := s.Obj().(*types.Func); ok && decls[fn.Origin()] != nil {
						work = append(work, fn.Origin())
					}
				}
			}
			return true
		})
	}
	n := 0
	for f := range seen {
		if decls[f] != nil {
			n++
		}
	}
	if n < 15 {
		c.Undecided("parser2#reachable-from-Parse", token.NoPos, "only %d functions reachable from Parse", n)
		return
	}
	c.OK("parser2#reachable-from-Parse", token.NoPos, "%d functions of package parser2 are reachable from Parser.Parse (outside the recovering Optimize); none of them contains an explicit panic", n)
}

// ---------------------------------------------------------------------------
// R04.5 result discipline

func ruleR045(c *Ctx) {
	a := c.genAnchors()
	root := c.Pkg("")
	if root == nil || len(a.missing) > 0 {
		c.Undecided("parser2/funcGen", token.NoPos, "anchors not found")
		return
	}
	fwd := c.forwarders(a)
	type scope struct {
		pkgInfo *types.Info
		fd      *ast.FuncDecl
		name    string
		custom  bool
	}
	var scopes []scope
	for _, f := range root.Syntax {
		for _, d := range f.Decls {
			if fd, ok := d.(*ast.FuncDecl); ok && fd.Body != nil && fd.Recv != nil && recvTypeName(fd.Recv.List[0].Type) == "Parser" {
				scopes = append(scopes, scope{root.TypesInfo, fd, declName(root, fd), false})
			}
		}
	}
	for _, gi := range c.generatorFuncs(a, fwd) {
		if gi.decl.Name.Name == "Optimize" {
			continue
		}
		scopes = append(scopes, scope{gi.pkg.TypesInfo, gi.decl, declName(gi.pkg, gi.decl), gi.decl.Name.Name == "GenerateCustom"})
	}
	isNil := func(e ast.Expr) bool {
		id, ok := ast.Unparen(e).(*ast.Ident)
		return ok && id.Name == "nil"
	}
	errType := types.Universe.Lookup("error").Type()
	for _, sc := range scopes {
		info := sc.pkgInfo
		res := sc.fd.Type.Results
		if res == nil {
			continue
		}
		var rt []types.Type
		for _, f := range res.List {
			n := len(f.Names)
			if n == 0 {
				n = 1
			}
			for i := 0; i < n; i++ {
				rt = append(rt, info.TypeOf(f.Type))
			}
		}
		if len(rt) < 2 || !types.Identical(rt[len(rt)-1], errType) {
			continue
		}
		nilable := false
		switch rt[0].Underlying().(type) {
		case *types.Interface, *types.Pointer, *types.Signature:
			nilable = true
		}
		if !nilable {
			continue
		}
		g := c.CFG(sc.fd)
		n := 0
		inspectNoLit(sc.fd.Body, func(x ast.Node) bool {
			r, ok := x.(*ast.ReturnStmt)
			if !ok || len(r.Results) != len(rt) {
				return true
			}
			n++
			key := fmt.Sprintf("%s#return[%d]", sc.name, n)
			first, last := r.Results[0], r.Results[len(r.Results)-1]
			switch {
			case isNil(first) && isNil(last):
				if sc.custom {
					c.OK(key, r.Pos(), "documented 'not mine' answer of a custom generator (nil, false, nil)")
				} else {
					c.Violation(key, r.Pos(), "returns neither a result nor an error (nil, nil): the caller dereferences a nil AST/function")
				}
			case isNil(first):
				// the error has to be non nil here
				switch e := ast.Unparen(last).(type) {
				case *ast.CallExpr:
					c.OK(key, r.Pos(), "nil result with a freshly constructed error")
				case *ast.Ident:
					obj := info.ObjectOf(e)
					nonNil := false
					for _, gd := range g.Guards(r) {
						be, ok := ast.Unparen(gd.Cond).(*ast.BinaryExpr)
						if !ok {
							continue
						}
						id, ok1 := ast.Unparen(be.X).(*ast.Ident)
						if ok1 && info.ObjectOf(id) == obj && isNil(be.Y) && ((be.Op == token.NEQ && gd.Val) || (be.Op == token.EQL && !gd.Val)) {
							nonNil = true
						}
					}
					if nonNil {
						c.OK(key, r.Pos(), "nil result under %s != nil", e.Name)
					} else {
						c.Violation(key, r.Pos(), "returns a nil result together with the error variable %s that is not known to be non-nil on this path: the caller may get (nil, nil)", e.Name)
					}
				default:
					c.OK(key, r.Pos(), "nil result with error expression %s", nodeStr(c.Fset, last))
				}
			case isNil(last):
				c.OK(key, r.Pos(), "result %s with nil error", nodeStr(c.Fset, first))
			default:
				c.OK(key, r.Pos(), "result and error forwarded together")
			}
			return true
		})
	}
}

func isZeroConst(info *types.Info, e ast.Expr) bool {
	v, ok := constInt(info.Types[e])
	return ok && v == 0
}
