#!/bin/bash
# usage: seeddetect.sh <seed-id>...  -- runs the property's check on a scratch copy with the seed applied; one line per seed
cd "$(dirname "$0")"
for id in "$@"; do
  d=seeded/$id; P=${id%-*}
  out=$(./mutrun.sh $d/patch.diff $P 2>&1)
  rules=$(echo "$out" | grep -E "^violated" | sed -E 's/^violated: rule=([^ ]+) construct=([^ ]+).*/\1|\2/' | head -3 | tr '\n' ';')
  und=$(echo "$out" | grep -E "^UNDECIDED" | sed -E 's/^UNDECIDED rule=([^ ]+) anchor=([^ ]+).*/\1|\2/' | head -2 | tr '\n' ';')
  ex=$(echo "$out" | grep -E "^exit=")
  echo "$id $ex V[$rules] U[$und]"
done
