#!/bin/bash
# usage: mkmut.sh <name> <file> <python-expr old> <new>  : creates /verif/mutants/<name>.patch replacing exactly one occurrence
set -e
NAME=$1; FILE=$2; OLD=$3; NEW=$4
D=$(mktemp -d /tmp/mkmut.XXXXXX); trap 'rm -rf "$D"' EXIT
mkdir -p "$D/a/$(dirname $FILE)" "$D/b/$(dirname $FILE)"
cp /repo/$FILE "$D/a/$FILE"
OLD="$OLD" NEW="$NEW" python3 - "$D/a/$FILE" "$D/b/$FILE" <<'PY'
import sys,os
s=open(sys.argv[1]).read()
old=os.environ['OLD']; new=os.environ['NEW']
n=s.count(old)
if n!=1:
    print("occurrences:",n); sys.exit(1)
open(sys.argv[2],'w').write(s.replace(old,new))
PY
(cd $D && diff -u a/$FILE b/$FILE > /verif/mutants/$NAME.patch) || true
(cd $D/b && gofmt -l . ) 
echo "created $NAME.patch ($(wc -l < /verif/mutants/$NAME.patch) lines)"
