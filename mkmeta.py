#!/usr/bin/env python3
"""Writes seeded/<id>/meta.json from the sub-agent's notes.md and the detection table (output of the seed loop in selftest.sh)."""
import json, os, re, sys
here = os.path.dirname(os.path.abspath(__file__))
table = sys.argv[1]
props = {json.loads(l)['id']: json.loads(l) for l in open(os.path.join(here, 'properties.jsonl'))}
for line in open(table):
    m = re.match(r'^(C\d+-\w) exit=(\d+) V\[(.*?)\] U\[(.*?)\]', line.strip())
    if not m:
        continue
    sid, ex, v, u = m.group(1), int(m.group(2)), m.group(3), m.group(4)
    d = os.path.join(here, 'seeded', sid)
    if not os.path.isdir(d):
        continue
    notes = open(os.path.join(d, 'notes.md')).read() if os.path.exists(os.path.join(d, 'notes.md')) else ''
    title = notes.split('\n', 1)[0].lstrip('# ').strip()
    needs = ''
    secs = re.split(r'\n##+ ', notes)
    for s in secs:
        head = s.split('\n', 1)[0].lower()
        if 'need' in head or 'manifest' in head:
            needs = s.split('\n', 1)[1].strip() if '\n' in s else ''
            break
    demo = [f for f in os.listdir(d) if f.endswith('_test.go')]
    dpath = open(os.path.join(d, 'demo_path.txt')).read().strip()
    pid = sid.split('-')[0]
    det = [x for x in v.split(';') if x]
    und = [x for x in u.split(';') if x]
    status = 'detected' if ex == 1 else ('undecided' if ex == 2 else 'missed')
    meta = {
        'id': sid,
        'property': pid,
        'property_title': props[pid]['title'],
        'summary': title,
        'needs_to_manifest': re.sub(r'\s+', ' ', needs)[:1500],
        'demonstration': {'test_file': demo[0] if demo else None, 'copy_to': dpath,
                          'confirmed_by': 'seedverify.sh in a scratch git worktree of /repo: `go test` of the demo package passes on the unchanged tree, fails with patch.diff applied; `go test ./...` (the pinned suite, demo removed) passes with patch.diff applied'},
        'origin': 'written by a sub-agent that saw only the text of the property and a scratch worktree of /repo (nothing from /verif)',
        'check_result': {'status': status, 'exit': ex,
                         'violations': [{'rule': x.split('|')[0], 'construct': x.split('|')[1]} for x in det if '|' in x],
                         'undecided': und,
                         'command': f'./mutrun.sh seeded/{sid}/patch.diff {pid}   (scratch copy of /repo with the patch applied; equivalent to git -C /repo apply, ./run.sh {pid}, git -C /repo checkout -- .)'},
    }
    json.dump(meta, open(os.path.join(d, 'meta.json'), 'w'), indent=1, ensure_ascii=False)
    print(sid, status)
