#!/bin/bash
# usage: mkcombined.sh <base.patch> <name> <file> <old> <new> : mutant = base patch (a benign refactoring) + one replacement; patch is relative to the clean tree
set -e
BASE=$(realpath $1); NAME=$2; FILE=$3; OLD=$4; NEW=$5
D=$(mktemp -d /tmp/mkcmb.XXXXXX); trap 'rm -rf "$D"' EXIT
rsync -a --exclude .git /repo/ $D/a/; rsync -a --exclude .git /repo/ $D/b/
(cd $D/b && patch -p1 -s < $BASE)
OLD="$OLD" NEW="$NEW" python3 - "$D/b/$FILE" <<'PY'
import sys,os
s=open(sys.argv[1]).read()
old=os.environ['OLD']; new=os.environ['NEW']
n=s.count(old)
if n!=1:
    print("occurrences:",n); sys.exit(1)
open(sys.argv[1],'w').write(s.replace(old,new))
PY
(cd $D/b && GOFLAGS=-mod=mod GOPROXY=off go build ./... ) || { echo "does not build"; exit 1; }
(cd $D && diff -ruN -x '*.orig' a b > /verif/mutants/$NAME.patch) || true
echo "created $NAME.patch ($(wc -l < /verif/mutants/$NAME.patch) lines)"
